import LowProofs.Props.C12
import LowProofs.Tie.bitmap_Get
import LowProofs.Tie.bitmap_Get1
import LowProofs.Tie.bitmap_SafeGet
import LowProofs.Tie.bitmap_SafeGet1
/-
  C12 end to end (inspection clauses): `C12_get`, `C12_get_oob`, `C12_safeGet` stated about the definitions
  REGENERATED from the go/ssa form of `bitmap.Get`, `Get1`, `SafeGet`, `SafeGet1` (`Generated/Ssa/*.lean`).
  No model function occurs in the statements: only the generated code and the specification `bitAt`.
  (The construction clauses of C12 -- `Of`, `OfMany`, `Builder`, `ToArray` -- build slices in loops and have no
  regenerated definition yet.)
-/
namespace Low

/-- The code of `Get` and of `Get1` (regenerated from their SSA forms), for every position `i` inside the bitmap
    `ws`: no panic; `Get` returns bit `i` in place (`bit << (i % 64)`), `Get1` returns it as 0/1.
    Hypothesis: `i < 64 * ws.length` only (no size bound is needed for the equation; Go values have
    `i < 2^31`). -/
theorem E2E_C12_get (ws : List Nat) (i : Nat) (hi : i < 64 * ws.length) :
    Gen.Ssa.bitmap_Get ws (i : Int) = some ((bitAt ws i).toNat <<< (i % 64)) ∧
    Gen.Ssa.bitmap_Get1 ws (i : Int) = some (bitAt ws i).toNat := by
  rw [Tie_bitmap_Get, Tie_bitmap_Get1]
  exact C12_get ws i hi

/-- The code of `Get` and of `Get1` panics (`none`) for every position outside the bitmap: at or beyond the end,
    and negative.  This is what the `Safe` variants avoid. -/
theorem E2E_C12_get_oob (ws : List Nat) (i : Int) (hi : i < 0 ∨ 64 * (ws.length : Int) ≤ i) :
    Gen.Ssa.bitmap_Get ws i = none ∧ Gen.Ssa.bitmap_Get1 ws i = none := by
  by_cases h0 : i < 0
  · exact ⟨Tie_bitmap_Get_neg ws i h0, Tie_bitmap_Get1_neg ws i h0⟩
  · obtain ⟨n, rfl⟩ := Int.eq_ofNat_of_zero_le (by omega : 0 ≤ i)
    rw [Tie_bitmap_Get, Tie_bitmap_Get1]
    exact C12_get_oob ws n (by omega)

/-- The code of `SafeGet` and of `SafeGet1` (regenerated from their SSA forms), for a bitmap with
    `len(ws) < 2^31` (the code converts `len` to `int32`) and EVERY integer `i`: never panics; inside the bitmap
    the answers are bit `i` in place resp. as 0/1, and 0 for negative positions and positions at or beyond
    the end.
    Hypothesis: `ws.length < 2^31`. -/
theorem E2E_C12_safeGet (ws : List Nat) (i : Int) (hlen : ws.length < 2^31) :
    Gen.Ssa.bitmap_SafeGet ws i
      = some (if 0 ≤ i ∧ i < 64 * (ws.length : Int) then (bitAt ws i.toNat).toNat <<< (i.toNat % 64) else 0) ∧
    Gen.Ssa.bitmap_SafeGet1 ws i
      = some (if 0 ≤ i ∧ i < 64 * (ws.length : Int) then (bitAt ws i.toNat).toNat else 0) := by
  rw [Tie_bitmap_SafeGet ws i hlen, Tie_bitmap_SafeGet1 ws i hlen, (C12_safeGet ws i).1, (C12_safeGet ws i).2]
  exact ⟨rfl, rfl⟩

/-- Inside the bitmap the code of the `Safe` variants returns what the code of the panicking ones returns
    (stated purely on generated code). -/
theorem E2E_C12_safeGet_eq_get (ws : List Nat) (i : Nat) (hlen : ws.length < 2^31) (hi : i < 64 * ws.length) :
    Gen.Ssa.bitmap_SafeGet ws (i : Int) = Gen.Ssa.bitmap_Get ws (i : Int) ∧
    Gen.Ssa.bitmap_SafeGet1 ws (i : Int) = Gen.Ssa.bitmap_Get1 ws (i : Int) := by
  rw [Tie_bitmap_SafeGet ws _ hlen, Tie_bitmap_SafeGet1 ws _ hlen, Tie_bitmap_Get, Tie_bitmap_Get1,
    (C12_safeGet_eq_get ws i hi).1, (C12_safeGet_eq_get ws i hi).2]
  exact ⟨rfl, rfl⟩

/-! non-vacuity -/
example : Gen.Ssa.bitmap_Get [0, 6] 66 = some 4 ∧ Gen.Ssa.bitmap_Get1 [0, 6] 66 = some 1 := by decide
example : Gen.Ssa.bitmap_Get [0, 6] 128 = none ∧ Gen.Ssa.bitmap_Get1 [0, 6] (-1) = none := by decide
example : Gen.Ssa.bitmap_SafeGet [0, 6] 66 = some 4 ∧ Gen.Ssa.bitmap_SafeGet1 [0, 6] (-3) = some 0
    ∧ Gen.Ssa.bitmap_SafeGet1 [0, 6] 128 = some 0 := by decide

end Low
