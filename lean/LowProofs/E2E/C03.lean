import LowProofs.E2E.C03Strict
import LowProofs.Tie2.bmtree_PathToIndexLoose
/-
  C03 end to end, part 2: `C03_loose` on the definition regenerated from the go/ssa form of `bmtree.PathToIndexLoose`
  (see `E2E/C03Strict.lean` for the conventions and for `Height` / `PathToIndex`).
-/
namespace Low
open Low.C03L

/-- The code of `PathToIndexLoose` (regenerated from its SSA form), for every level bitmap `T` of height `h ≤ 30`
    (`2^h ≤ T < 2^(h+1)`), every node `n` of depth `≤ h`, given as its specified path word `encPath h n`, and EVERY
    `fuel ≥ 32`: terminates within the fuel, does not panic, and returns (number of stored nodes before `n` in
    pre-order, 1 iff the level of `n` itself is stored).
    Hypotheses: `2^h ≤ T`, `T < 2^(h+1)`, `h ≤ 30`, `n.length ≤ h`, `32 ≤ fuel` (the tie's `1 ≤ T < 2^31` follow). -/
theorem E2E_C03_loose (T h : Nat) (n : List Bool) (fuel : Nat) (h1 : 2^h ≤ T) (h2 : T < 2^(h+1)) (h30 : h ≤ 30)
    (hn : n.length ≤ h) (hfuel : 32 ≤ fuel) :
    Gen.Ssa2.bmtree_PathToIndexLoose fuel (T : Int) (encPath h n)
      = some ((preIdx T 0 n : Int), ((T.testBit n.length).toNat : Int)) := by
  obtain ⟨a, b⟩ := E2EL.c03dom h1 h2 h30
  rw [Tie_bmtree_PathToIndexLoose T _ fuel a b hfuel,
    C03_loose T h n a b (height_of_range h1 h2 h30) hn]

/-! non-vacuity: level bitmap 0x72 (height 6, levels 1, 4, 5, 6 stored) -/
example : Gen.Ssa2.bmtree_PathToIndexLoose 32 0x72 (encPath 6 [true, false, true]) = some (72, 0) := by
  decide +kernel
end Low
