import LowProofs.Props.C13
import LowProofs.Tie2.bitmap_NextOne
import LowProofs.Tie2.bitmap_PrevOne
/-
  C13 end to end: the clauses of `Props/C13.lean` stated about the definitions REGENERATED from the go/ssa form of
  `bitmap.NextOne` / `bitmap.PrevOne` (`Generated/Ssa2/*.lean`; loops are recursion on `fuel`), by composing
  `C13_next` / `C13_prev` with `Tie_bitmap_NextOne` / `Tie_bitmap_PrevOne`.  No model function occurs in the
  statements: only the generated code and the specification `bitAt`.
-/
namespace Low

/-- The code of `NextOne` (regenerated from its SSA form), for a bitmap `ws` of fewer than `2^25` words
    (`BmDom`), every word a `uint64`, `0 ≤ i ≤ end ≤ 64*len(ws)` and `i` inside the bitmap, and for EVERY
    `fuel ≥ len(ws) + 1`: terminates within the fuel, does not panic, and returns `-1` exactly when `[i, end)`
    holds no 1-bit, otherwise the smallest position of a 1-bit in `[i, end)`.
    Hypotheses: `ws.length < 2^25`, `WordsOK ws`, `i ≤ e`, `e ≤ 64 * ws.length`, `i < 64 * ws.length`,
    `ws.length + 1 ≤ fuel`. -/
theorem E2E_C13_next (ws : List Nat) (i e fuel : Nat) (hlen : ws.length < 2^25) (hok : WordsOK ws)
    (hie : i ≤ e) (he : e ≤ 64 * ws.length) (hi : i < 64 * ws.length) (hfuel : ws.length + 1 ≤ fuel) :
    ∃ r : Int, Gen.Ssa2.bitmap_NextOne fuel ws (i : Int) (e : Int) = some r ∧
      ((r = -1 ∧ ∀ p, i ≤ p → p < e → bitAt ws p = false) ∨
       (∃ q : Nat, r = (q : Int) ∧ i ≤ q ∧ q < e ∧ bitAt ws q = true ∧
          ∀ p, i ≤ p → p < q → bitAt ws p = false)) := by
  rw [Tie_bitmap_NextOne ws i e fuel hlen hfuel]
  exact C13_next ws i e hok hie he hi

/-- The code of `PrevOne` (regenerated from its SSA form), for a bitmap `ws` of fewer than `2^25` words, every
    word a `uint64`, `0 ≤ i ≤ end ≤ 64*len(ws)`, `i` inside the bitmap, `end ≥ 1`, and for EVERY
    `fuel ≥ len(ws)`: terminates within the fuel, does not panic, and returns `-1` exactly when `[i, end)` holds
    no 1-bit, otherwise the largest position of a 1-bit in `[i, end)`.
    Hypotheses: `ws.length < 2^25`, `WordsOK ws`, `i ≤ e`, `e ≤ 64 * ws.length`, `i < 64 * ws.length`, `1 ≤ e`,
    `ws.length ≤ fuel`.  The tie's hypothesis `e < 2^31` follows from `e ≤ 64 * ws.length < 2^31`. -/
theorem E2E_C13_prev (ws : List Nat) (i e fuel : Nat) (hlen : ws.length < 2^25) (hok : WordsOK ws)
    (hie : i ≤ e) (he : e ≤ 64 * ws.length) (hi : i < 64 * ws.length) (he1 : 1 ≤ e) (hfuel : ws.length ≤ fuel) :
    ∃ r : Int, Gen.Ssa2.bitmap_PrevOne fuel ws (i : Int) (e : Int) = some r ∧
      ((r = -1 ∧ ∀ p, i ≤ p → p < e → bitAt ws p = false) ∨
       (∃ q : Nat, r = (q : Int) ∧ i ≤ q ∧ q < e ∧ bitAt ws q = true ∧
          ∀ p, q < p → p < e → bitAt ws p = false)) := by
  rw [Tie_bitmap_PrevOne ws i e fuel hlen hok (by omega) hfuel]
  exact C13_prev ws i e hok hie he hi he1

/-! non-vacuity: the generated code skips two all-zero words and finds bit 63 of word 3; clipping; PrevOne -/
example : Gen.Ssa2.bitmap_NextOne 5 [1, 0, 0, 2^63] 1 256 = some 255 := by decide +kernel
example : Gen.Ssa2.bitmap_NextOne 5 [1, 0, 0, 2^63] 1 255 = some (-1) := by decide +kernel
example : Gen.Ssa2.bitmap_PrevOne 4 [1, 0, 0, 2^63] 0 255 = some 0 := by decide +kernel
example : ∃ r : Int, Gen.Ssa2.bitmap_NextOne 7 [1, 0, 0, 2^63] ((1 : Nat) : Int) ((256 : Nat) : Int) = some r ∧
      ((r = -1 ∧ ∀ p, 1 ≤ p → p < 256 → bitAt [1, 0, 0, 2^63] p = false) ∨
       (∃ q : Nat, r = (q : Int) ∧ 1 ≤ q ∧ q < 256 ∧ bitAt [1, 0, 0, 2^63] q = true ∧
          ∀ p, 1 ≤ p → p < q → bitAt [1, 0, 0, 2^63] p = false)) :=
  E2E_C13_next [1, 0, 0, 2^63] 1 256 7 (by decide)
    (by intro w hw; simp at hw; rcases hw with h | h | h <;> subst h <;> decide)
    (by decide) (by decide) (by decide) (by decide)

end Low
