import LowProofs.Props.C18
import LowProofs.Tie.iohelper_SectionWriter_Seek
import LowProofs.Tie.iohelper_SectionWriter_Size
import LowProofs.Tie2.iohelper_SectionWriter_Write
import LowProofs.Tie2.iohelper_SectionWriter_WriteAt
/-
  C18 end to end: one step (`step_refines`) and any call sequence (`C18_refine`) stated about the definitions
  REGENERATED from the go/ssa form of the four methods `(*SectionWriter).Write`, `WriteAt`, `Seek`, `Size`
  (`Generated/Ssa/iohelper_SectionWriter_Seek.lean`, `…_Size.lean`, `Generated/Ssa2/iohelper_SectionWriter_Write.lean`,
  `…_WriteAt.lean`) against the reference cursor machine `RefSW` of `LowModel/Spec.lean`.

  Shapes.  The generated definitions take the receiver's fields `base off limit` (a `SectionWriter` record here is just
  these three integers), the caller's buffer `p`, and -- for the one external call `io.WriterAt.WriteAt` -- the scripted
  answer `⟨accept, fail⟩` of the underlying writer; they return
    Write   : `some (n, err, final off, what was handed to the underlying writer)`  (`none` = panic)
    WriteAt : `some (n, err, what was handed to the underlying writer)`            (stores to no field)
    Seek    : `(n, err, final off)`                                               (no external call, cannot panic)
    Size    : `n`
  where `err : GoSem.Err` is the identity of the Go error value and the last component is `some (offset, len)` or
  `none` (= the underlying writer was not called).  `base` and `limit` are stored to by no method (by construction of
  the translation), so the successor state is `(base, final off, limit)`.
  The reference machine returns `RefOut = ⟨n, error class, some (offset, len) / none⟩`; `refErrGo` below maps its four
  error classes to the Go error identities.  No model function occurs in the conclusions.
  (The constructors `NewSectionWriter`, `AtToWriter` have no regenerated definition; `C18_init`/`C18_atToWriter` show
  that the states they build satisfy `SwInv`.)
-/
namespace Low

/-- the Go error value (its identity, `GoSem.Err`) an error class of the reference machine stands for -/
def refErrGo : Option String → GoSem.Err
  | none => none
  | some c =>
    if c = "ShortWrite" then some "io.ErrShortWrite"
    else if c = "Whence" then some "iohelper.errWhence"
    else if c = "Offset" then some "iohelper.errOffset"
    else some "(error of the underlying writer)"

theorem refErrGo_errName (e : Option IoErr) : refErrGo (errName e) = ioErrId e := by
  cases e with
  | none => rfl
  | some x => cases x <;> decide

/-- the successor state the generated code determines: only `off` is ever stored to -/
def SectionWriter.withOff (s : SectionWriter) (off : Int) : SectionWriter := ⟨s.base, off, s.limit⟩

private theorem ucall_map (u : Option UCall) :
    (u.map (fun c => (c.off, c.len))).map (fun c : Int × Nat => (c.1, (c.2 : Int)))
      = u.map (fun u => (u.off, (u.len : Int))) := by
  cases u <;> rfl

/-- `Write`, one step.  From a state satisfying `SwInv` (`0 ≤ base ≤ off`, `base ≤ limit`, `limit` and `off` int64),
    for every buffer `p` (of a length that fits an `int`) and every answer of the underlying writer, the code of
    `Write` (regenerated from its SSA form) does not panic, returns the count and the error the reference machine
    returns, hands to the underlying writer exactly the (offset, number of leading bytes of `p`) the reference
    machine predicts (or does not call it when it predicts no call), leaves the cursor where the reference machine
    leaves it, and the successor state satisfies `SwInv` again.
    Hypotheses: `SwInv s`, `p.length < 2^63` (the tie's `limit - off < 2^63` is proved from `SwInv`). -/
theorem E2E_C18_write (s : SectionWriter) (hi : SwInv s) (p : List Nat) (hp : p.length < 2^63)
    (accept : Nat) (fail : Bool) :
    let R := (toRef s).write p.length accept fail
    Gen.Ssa2.iohelper_SectionWriter_Write s.base s.off s.limit p ⟨accept, fail⟩
        = some (R.2.n, refErrGo R.2.err, R.1.off, R.2.ucall.map (fun c => (c.1, (c.2 : Int))))
      ∧ R.1 = toRef (s.withOff R.1.off) ∧ SwInv (s.withOff R.1.off) := by
  intro R
  have hsub : s.limit - s.off < 2^63 := by obtain ⟨h0, h1, h2, h3, h4⟩ := hi; omega
  have hr := step_refines s (.write p.length ⟨accept, fail⟩) hi rfl
  obtain ⟨ht, hb, hl⟩ := Tie_iohelper_SectionWriter_Write s p ⟨accept, fail⟩ hsub hp
  simp only [SectionWriter.step, toRefCall, RefSW.step] at hr
  generalize hst : s.write p.length ⟨accept, fail⟩ = st at hr ht hb hl
  obtain ⟨s', ret, u⟩ := st
  simp only at hr ht hb hl
  obtain ⟨hinv, href⟩ := hr
  have hR : R = (toRef s', toRefOut ret u) := href
  have hs' : s.withOff s'.off = s' := by
    cases s'; simp only [SectionWriter.withOff] at *; simp only [hb, hl]
  rw [hR]
  simp only [toRef, toRefOut, refErrGo_errName, ucall_map]
  rw [hs']
  exact ⟨ht, rfl, hinv⟩

/-- `WriteAt`, one step.  From a state satisfying `SwInv`, for every buffer, every offset that is an int64
    (`RefSW.callOK`) and every answer of the underlying writer, the code of `WriteAt` (regenerated from its SSA form)
    does not panic, returns the count and the error the reference machine returns, and hands to the underlying
    writer exactly what the reference machine predicts.  The method stores to no field: the state is unchanged by
    construction.
    Hypotheses: `SwInv s`, `p.length < 2^63`, `(toRef s).callOK (.writeAt p.length off accept fail)` (i.e.
    `-2^63 ≤ off < 2^63`). -/
theorem E2E_C18_writeAt (s : SectionWriter) (hi : SwInv s) (p : List Nat) (hp : p.length < 2^63) (off : Int)
    (accept : Nat) (fail : Bool) (hc : (toRef s).callOK (.writeAt p.length off accept fail) = true) :
    let R := (toRef s).writeAt p.length off accept fail
    Gen.Ssa2.iohelper_SectionWriter_WriteAt s.base s.off s.limit p off ⟨accept, fail⟩
        = some (R.n, refErrGo R.err, R.ucall.map (fun c => (c.1, (c.2 : Int)))) := by
  intro R
  have hr := step_refines s (.writeAt p.length off ⟨accept, fail⟩) hi hc
  have ht := Tie_iohelper_SectionWriter_WriteAt s p off ⟨accept, fail⟩ hp
  simp only [SectionWriter.step, toRefCall, RefSW.step] at hr
  generalize hst : s.writeAt p.length off ⟨accept, fail⟩ = st at hr ht
  obtain ⟨ret, u⟩ := st
  simp only at hr ht
  have hR : R = toRefOut ret u := (Prod.mk.inj hr.2).2
  rw [hR]
  simp only [toRefOut, refErrGo_errName, ucall_map]
  exact ht

/-- `Seek`, one step.  From a state satisfying `SwInv`, for every `offset`, `whence` whose target position is an
    int64 (`RefSW.callOK`; an invalid `whence` is always in the domain), the code of `Seek` (regenerated from its SSA
    form; it cannot panic and makes no external call) returns the position and the error the reference machine
    returns and leaves the cursor where the reference machine leaves it; the reference machine predicts no call of
    the underlying writer; the successor state satisfies `SwInv`.
    Hypotheses: `SwInv s`, `(toRef s).callOK (.seek offset whence)`. -/
theorem E2E_C18_seek (s : SectionWriter) (hi : SwInv s) (offset whence : Int)
    (hc : (toRef s).callOK (.seek offset whence) = true) :
    let R := (toRef s).seek offset whence
    Gen.Ssa.iohelper_SectionWriter_Seek s.base s.off s.limit offset whence = (R.2.n, refErrGo R.2.err, R.1.off)
      ∧ R.2.ucall = none ∧ R.1 = toRef (s.withOff R.1.off) ∧ SwInv (s.withOff R.1.off) := by
  intro R
  have hr := step_refines s (.seek offset whence) hi hc
  obtain ⟨ht, hb, hl⟩ := Tie_iohelper_SectionWriter_Seek s offset whence
  simp only [SectionWriter.step, toRefCall, RefSW.step] at hr
  generalize hst : s.seek offset whence = st at hr ht hb hl
  obtain ⟨s', ret⟩ := st
  simp only at hr ht hb hl
  obtain ⟨hinv, href⟩ := hr
  have hR : R = (toRef s', toRefOut ret none) := href
  have hs' : s.withOff s'.off = s' := by
    cases s'; simp only [SectionWriter.withOff] at *; simp only [hb, hl]
  rw [hR]
  show Gen.Ssa.iohelper_SectionWriter_Seek s.base s.off s.limit offset whence
        = (ret.n, refErrGo (errName ret.err), s'.off)
      ∧ (none : Option (Int × Nat)) = none ∧ toRef s' = toRef (s.withOff s'.off) ∧ SwInv (s.withOff s'.off)
  rw [hs', refErrGo_errName]
  exact ⟨ht, rfl, rfl, hinv⟩

/-- `Size`.  From a state satisfying `SwInv` the code of `Size` (regenerated from its SSA form; no panic, no store,
    no external call) returns `limit - base`, which is what the reference machine returns. -/
theorem E2E_C18_size (s : SectionWriter) (hi : SwInv s) :
    Gen.Ssa.iohelper_SectionWriter_Size s.base s.off s.limit = ((toRef s).step .size).2.n
      ∧ ((toRef s).step .size).2.n = s.limit - s.base := by
  have hr := step_refines s .size hi rfl
  simp only [SectionWriter.step, toRefCall] at hr
  refine ⟨?_, rfl⟩
  rw [Tie_iohelper_SectionWriter_Size, hr.2]
  rfl

/-! ### any call sequence -/

/-- a call of the API as the generated code receives it: the buffer itself, and the scripted answer of the
    underlying writer for `Write` / `WriteAt` -/
inductive GenCall where
  | write (p : List Nat) (accept : Nat) (fail : Bool)
  | writeAt (p : List Nat) (off : Int) (accept : Nat) (fail : Bool)
  | seek (offset whence : Int)
  | size

/-- the call as the reference machine sees it (only the length of the buffer matters) -/
def GenCall.toRef : GenCall → RefCall
  | .write p accept fail => .write p.length accept fail
  | .writeAt p off accept fail => .writeAt p.length off accept fail
  | .seek offset whence => .seek offset whence
  | .size => .size

/-- one API call executed by the GENERATED code on the receiver state: successor state (only `off` is stored to)
    and `(n, err, call made on the underlying writer)`; `none` = panic -/
def genStep (s : SectionWriter) : GenCall → Option (SectionWriter × (Int × GoSem.Err × GoSem2.ExtCall))
  | .write p accept fail =>
      (Gen.Ssa2.iohelper_SectionWriter_Write s.base s.off s.limit p ⟨accept, fail⟩).map
        fun r => (s.withOff r.2.2.1, (r.1, r.2.1, r.2.2.2))
  | .writeAt p off accept fail =>
      (Gen.Ssa2.iohelper_SectionWriter_WriteAt s.base s.off s.limit p off ⟨accept, fail⟩).map fun r => (s, r)
  | .seek offset whence =>
      let r := Gen.Ssa.iohelper_SectionWriter_Seek s.base s.off s.limit offset whence
      some (s.withOff r.2.2, (r.1, r.2.1, none))
  | .size => some (s, (Gen.Ssa.iohelper_SectionWriter_Size s.base s.off s.limit, none, none))

/-- the generated code run over a call sequence; `none` as soon as a call panics -/
def genRun (s : SectionWriter) : List GenCall → Option (List (Int × GoSem.Err × GoSem2.ExtCall))
  | [] => some []
  | c :: r =>
    match genStep s c with
    | none => none
    | some (s', o) => (genRun s' r).map (o :: ·)

/-- what the reference machine's outcome looks like in the result shape of the generated code -/
def refOutGo (o : RefOut) : Int × GoSem.Err × GoSem2.ExtCall :=
  (o.n, refErrGo o.err, o.ucall.map (fun c => (c.1, (c.2 : Int))))

/-- one step of the generated code = one step of the reference machine, and `SwInv` is preserved -/
theorem E2E_C18_step (s : SectionWriter) (hi : SwInv s) (c : GenCall)
    (hp : match c with | .write p _ _ => p.length < 2^63 | .writeAt p _ _ _ => p.length < 2^63 | _ => True)
    (hc : (toRef s).callOK c.toRef = true) :
    ∃ s', genStep s c = some (s', refOutGo ((toRef s).step c.toRef).2) ∧
      toRef s' = ((toRef s).step c.toRef).1 ∧ SwInv s' := by
  cases c with
  | write p accept fail =>
    obtain ⟨h1, h2, h3⟩ := E2E_C18_write s hi p hp accept fail
    refine ⟨s.withOff ((toRef s).write p.length accept fail).1.off, ?_, h2.symm, h3⟩
    simp only [genStep, h1, Option.map_some, GenCall.toRef, RefSW.step, refOutGo]
  | writeAt p off accept fail =>
    have h1 := E2E_C18_writeAt s hi p hp off accept fail hc
    refine ⟨s, ?_, rfl, hi⟩
    simp only [genStep, h1, Option.map_some, GenCall.toRef, RefSW.step, refOutGo]
  | seek offset whence =>
    obtain ⟨h1, h2, h3, h4⟩ := E2E_C18_seek s hi offset whence hc
    refine ⟨s.withOff ((toRef s).seek offset whence).1.off, ?_, h3.symm, h4⟩
    simp only [genStep, h1, GenCall.toRef, RefSW.step, refOutGo, h2, Option.map_none]
  | size =>
    obtain ⟨h1, h2⟩ := E2E_C18_size s hi
    refine ⟨s, ?_, rfl, hi⟩
    simp only [genStep, h1, GenCall.toRef, RefSW.step, refOutGo, refErrGo, Option.map_none]

/-- C18 (refinement) end to end: along ANY sequence of `Write` / `WriteAt` / `Seek` / `Size` calls executed by the
    GENERATED code, starting from a state satisfying `SwInv` (e.g. one made by `NewSectionWriter`, `C18_init`), whose
    requested positions are int64 values (`RefSW.runOK`) and whose buffers have lengths that fit an `int`, with an
    underlying writer that may fail or write short at any call: no call panics, and every return value, every error
    and every call made on the underlying writer is exactly what the reference cursor machine `RefSW` predicts. -/
theorem E2E_C18_refine : ∀ (calls : List GenCall) (s : SectionWriter), SwInv s →
    (∀ c ∈ calls, match c with
      | .write p _ _ => p.length < 2^63 | .writeAt p _ _ _ => p.length < 2^63 | _ => True) →
    (toRef s).runOK (calls.map GenCall.toRef) = true →
    genRun s calls = some (((toRef s).run (calls.map GenCall.toRef)).map refOutGo)
  | [], _, _, _, _ => rfl
  | c :: r, s, hi, hp, hok => by
    simp only [List.map_cons, RefSW.runOK, Bool.and_eq_true] at hok
    obtain ⟨s', h1, h2, h3⟩ := E2E_C18_step s hi c (hp c List.mem_cons_self) hok.1
    have ih := E2E_C18_refine r s' h3 (fun c hc => hp c (List.mem_cons_of_mem _ hc)) (by rw [h2]; exact hok.2)
    simp only [genRun, h1, ih, Option.map_some, List.map_cons, RefSW.run, h2]

/-! non-vacuity: a section [5, 8): write 3 (fills it), write 1 (short), seek back 1, write 2 (truncated to 1), size -/
example : genRun (newSectionWriter 5 3)
    [.write [1, 2, 3] 3 false, .write [4] 1 false, .seek (-1) 1, .write [5, 6] 2 false, .size] =
    some [(3, none, some (5, 3)), (0, some "io.ErrShortWrite", none), (2, none, none),
      (1, some "io.ErrShortWrite", some (7, 1)), (3, none, none)] := by
  decide +kernel
example : ((toRef (newSectionWriter 5 3)).run
    [.write 3 3 false, .write 1 1 false, .seek (-1) 1, .write 2 2 false, .size]).map refOutGo =
    [(3, none, some (5, 3)), (0, some "io.ErrShortWrite", none), (2, none, none),
      (1, some "io.ErrShortWrite", some (7, 1)), (3, none, none)] := by
  decide +kernel

end Low
