import LowProofs.Props.C10
import LowProofs.Tie.bmtree_NewPath
import LowProofs.Tie.bmtree_PathLen
import LowProofs.Tie.bmtree_PathHeight
import LowProofs.Tie.bmtree_PathBits
import LowProofs.Tie.bmtree_PathMask
/-
  C10 end to end: `C10_newPath`, `C10_len`, `C10_height`, `C10_halves(_word)` stated about the definitions
  REGENERATED from the go/ssa form of `bmtree.NewPath`, `PathLen`, `PathHeight`, `PathBits`, `PathMask`
  (`Generated/Ssa/bmtree_*.lean`).  No model function occurs in the statements: only generated code and the
  specification vocabulary (`encPath`, `bitsVal`; nodes are branch lists `n : List Bool`, every `l`-bit prefix is
  `bitsVal n` of exactly one `n` of length `l`).
  (`PathStr` goes through `fmt` and has no regenerated definition; the order clauses `C10_order` … are statements
  about `encPath` alone, i.e. through `E2E_C10_newPath` about the words the code of `NewPath` returns.)
-/
namespace Low

/-- The code of `NewPath` (regenerated from its SSA form), for every height `h ≤ 32` and every node `n` of
    length `l ≤ h`, called on the prefix of `n` left-aligned in `h` bits: does not panic and returns the specified
    path word `encPath h n`.
    Hypotheses: `h ≤ 32`, `n.length ≤ h` (the tie's `length ≤ 64` and `h < 2^31` follow). -/
theorem E2E_C10_newPath {h : Nat} {n : List Bool} (hh : h ≤ 32) (hl : n.length ≤ h) :
    Gen.Ssa.bmtree_NewPath (bitsVal n <<< (h - n.length)) (n.length : Int) (h : Int) = some (encPath h n) := by
  rw [Tie_bmtree_NewPath _ _ _ hl (by omega) (by omega), C10_newPath hh hl]

/-- The code of `PathLen` on a specified path word returns the length of the node. -/
theorem E2E_C10_len {h : Nat} {n : List Bool} (hh : h ≤ 32) (hl : n.length ≤ h) :
    Gen.Ssa.bmtree_PathLen (encPath h n) = (n.length : Int) := by
  rw [Tie_bmtree_PathLen, C10_len hh hl]

/-- The code of `PathHeight` on the path word of a non-root node returns the tree height. -/
theorem E2E_C10_height {h : Nat} {n : List Bool} (hh : h ≤ 32) (hl : n.length ≤ h) (hn : n ≠ []) :
    Gen.Ssa.bmtree_PathHeight (encPath h n) = (h : Int) := by
  rw [Tie_bmtree_PathHeight, C10_height hh hl hn]

/-- The code of `PathBits` / `PathMask` returns the upper / lower 32-bit half of ANY word (no hypothesis). -/
theorem E2E_C10_halves_word (p : Nat) :
    Gen.Ssa.bmtree_PathBits p = p >>> 32 ∧ Gen.Ssa.bmtree_PathMask p = p % 2 ^ 32 := by
  rw [Tie_bmtree_PathBits, Tie_bmtree_PathMask]; exact C10_halves_word p

/-- The code of `PathBits` / `PathMask` on a specified path word returns the left-aligned prefix / the
    left-aligned run of `|n|` ones. -/
theorem E2E_C10_halves {h : Nat} {n : List Bool} (hh : h ≤ 32) (hl : n.length ≤ h) :
    Gen.Ssa.bmtree_PathBits (encPath h n) = bitsVal n <<< (h - n.length) ∧
    Gen.Ssa.bmtree_PathMask (encPath h n) = (2 ^ n.length - 1) <<< (h - n.length) := by
  rw [Tie_bmtree_PathBits, Tie_bmtree_PathMask]; exact C10_halves hh hl

/-- Self-consistency stated PURELY on generated code: for every height `h ≤ 32`, length `l ≤ h` and `l`-bit
    prefix (given as the node `n`, `l = n.length`, prefix value `bitsVal n`), the code of `NewPath` on the
    left-aligned prefix returns (without panic) a word `p` on which the code of `PathLen` returns `l`, the code of
    `PathBits` returns the left-aligned prefix that was passed in, the code of `PathMask` returns `l` ones
    left-aligned in `h` bits, and -- unless `l = 0` (the root's word is 0 whatever the height) -- the code of
    `PathHeight` returns `h`.
    Hypotheses: `h ≤ 32`, `n.length ≤ h`. -/
theorem E2E_C10_roundtrip {h : Nat} {n : List Bool} (hh : h ≤ 32) (hl : n.length ≤ h) :
    ∃ p, Gen.Ssa.bmtree_NewPath (bitsVal n <<< (h - n.length)) (n.length : Int) (h : Int) = some p ∧
      Gen.Ssa.bmtree_PathLen p = (n.length : Int) ∧
      (n.length ≠ 0 → Gen.Ssa.bmtree_PathHeight p = (h : Int)) ∧
      Gen.Ssa.bmtree_PathBits p = bitsVal n <<< (h - n.length) ∧
      Gen.Ssa.bmtree_PathMask p = (2 ^ n.length - 1) <<< (h - n.length) :=
  ⟨encPath h n, E2E_C10_newPath hh hl, E2E_C10_len hh hl,
    fun hn => E2E_C10_height hh hl (fun e => hn (by rw [e]; rfl)),
    (E2E_C10_halves hh hl).1, (E2E_C10_halves hh hl).2⟩

/-! non-vacuity: node 101 in a tree of height 5 -/
example : Gen.Ssa.bmtree_NewPath 0b10100 3 5 = some 0x140000001c := by decide
example : Gen.Ssa.bmtree_PathLen 0x140000001c = 3 ∧ Gen.Ssa.bmtree_PathHeight 0x140000001c = 5 ∧
    Gen.Ssa.bmtree_PathBits 0x140000001c = 0b10100 ∧ Gen.Ssa.bmtree_PathMask 0x140000001c = 0b11100 := by decide
example : ∃ p, Gen.Ssa.bmtree_NewPath (bitsVal [true, false, true] <<< (5 - 3)) (3 : Nat) (5 : Nat) = some p ∧
      Gen.Ssa.bmtree_PathLen p = (3 : Nat) ∧ (3 ≠ 0 → Gen.Ssa.bmtree_PathHeight p = (5 : Nat)) ∧
      Gen.Ssa.bmtree_PathBits p = bitsVal [true, false, true] <<< (5 - 3) ∧
      Gen.Ssa.bmtree_PathMask p = (2 ^ 3 - 1) <<< (5 - 3) :=
  E2E_C10_roundtrip (n := [true, false, true]) (by decide) (by decide)

end Low
