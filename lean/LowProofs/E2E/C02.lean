import LowProofs.Props.C02
import LowProofs.Tie2.bitmap_Select32
import LowProofs.Tie2.bitmap_Select32R64
import LowProofs.E2E.Lemmas
/-
  C02 end to end: `C02_select32` / `C02_select32R64` stated about the definitions REGENERATED from the go/ssa form
  of `bitmap.Select32` / `bitmap.Select32R64` (`Generated/Ssa2/*.lean`; the skip loops are recursion on `fuel`, the
  table `select8Lookup` is built by the regenerated init algorithm).
  The index arguments are still produced by the model's `indexSelect32` / `indexRank64`: `IndexSelect32`,
  `IndexSelect32R64` and `IndexRank64` append to slices in loops and have no regenerated definition yet.
-/
namespace Low
open Low.E2EL

/-- The code of `Select32` (regenerated from its SSA form), for a bitmap `ws` of fewer than `2^25` words
    (`BmDom`), every word a `uint64`, with the index `IndexSelect32(ws)` (model-built), for every `i` below the
    number of 1-bits and EVERY `fuel ≥ len(ws) + 1`: terminates within the fuel, does not panic, and returns
    exactly (position of the `i`-th 1-bit, position of the `(i+1)`-th 1-bit or `64*len` when `i` is the last).
    Hypotheses: `ws.length < 2^25`, `WordsOK ws`, `i < (ones ws).length`, `ws.length + 1 ≤ fuel`.
    The tie's `len(selectIndex) < 2^31` is proved (`indexSelect32_length_le`). -/
theorem E2E_C02_select32 (ws : List Nat) (hlen : ws.length < 2^25) (hok : WordsOK ws) (i fuel : Nat)
    (hi : i < (ones ws).length) (hfuel : ws.length + 1 ≤ fuel) :
    Gen.Ssa2.bitmap_Select32 fuel ws ((indexSelect32 ws).map Int.ofNat) (i : Int)
      = some (((ones ws)[i] : Int), ((ones ws).getD (i + 1) (64 * ws.length) : Int)) := by
  rw [Tie_bitmap_Select32 ws _ i fuel hlen (by have := indexSelect32_length_le ws; omega) hfuel,
    C02_select32 ws hok i hi]
  rfl

/-- The code of `Select32R64` (regenerated from its SSA form), under the same conditions, with the two indexes
    `IndexSelect32R64(ws)` = (`IndexSelect32(ws)`, `IndexRank64(ws, true)`) (model-built), for EVERY
    `fuel ≥ len(ws) + 2`: terminates, does not panic, and returns the same pair.
    Hypotheses: `ws.length < 2^25`, `WordsOK ws`, `i < (ones ws).length`, `ws.length + 2 ≤ fuel`.
    The tie's hypotheses (entries of both indexes `< 2^31`, `len(rankIndex) < 2^31`, `i < 2^31`,
    `max (len words) (len rankIndex) + 1 ≤ fuel`) are all proved from these. -/
theorem E2E_C02_select32R64 (ws : List Nat) (hlen : ws.length < 2^25) (hok : WordsOK ws) (i fuel : Nat)
    (hi : i < (ones ws).length) (hfuel : ws.length + 2 ≤ fuel) :
    Gen.Ssa2.bitmap_Select32R64 fuel ws ((indexSelect32R64 ws).1.map Int.ofNat)
        ((indexSelect32R64 ws).2.map Int.ofNat) (i : Int)
      = some (((ones ws)[i] : Int), ((ones ws).getD (i + 1) (64 * ws.length) : Int)) := by
  have hn := ones_length_le ws
  have hrl := indexRank64_length ws true
  simp only [Bool.toNat_true] at hrl
  simp only [C02_indexSelect32R64]
  rw [Tie_bitmap_Select32R64 ws _ _ i fuel hlen
      (fun n h => by rcases indexSelect32_mem_lt h with h | h <;> omega)
      (by omega)
      (fun n h => by have := indexRank64_mem_le h; omega)
      (by omega)
      (by rw [hrl]; omega),
    C02_select32R64 ws hok i hi]
  rfl

/-! non-vacuity: 66 one-bits over three words with an empty word in the middle; a select that crosses the
    32-checkpoint and the empty word, and the last 1-bit (second component `64*len`) -/
example : Gen.Ssa2.bitmap_Select32 4 [2^64 - 1, 0, 2^63 + 1] ((indexSelect32 [2^64 - 1, 0, 2^63 + 1]).map Int.ofNat) 63
    = some (63, 128) := by decide +kernel
example : Gen.Ssa2.bitmap_Select32R64 5 [2^64 - 1, 0, 2^63 + 1]
    ((indexSelect32R64 [2^64 - 1, 0, 2^63 + 1]).1.map Int.ofNat)
    ((indexSelect32R64 [2^64 - 1, 0, 2^63 + 1]).2.map Int.ofNat) 65 = some (191, 192) := by decide +kernel

end Low
