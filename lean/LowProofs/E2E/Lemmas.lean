import LowProofs.Props.C01
import LowProofs.Props.C02
import LowProofs.Props.C09
/-
  (Imports model-side property files only: nothing here depends on regenerated code.)
  Helper lemmas for the end-to-end theorems (`LowProofs/E2E/Cxx.lean`): bounds on the values the model-built
  indexes contain, so that the int32-domain hypotheses of the tie theorems follow from hypotheses about the
  inputs alone.
-/
namespace Low.E2EL
open Low

/-- the number of 1-bits before position `i` is at most `i` -/
theorem rank_le (ws : List Nat) : ∀ i, rank ws i ≤ i
  | 0 => by simp [rank]
  | i+1 => by
    have := rank_le ws i
    rw [rank]; cases bitAt ws i <;> simp <;> omega

/-- every entry of the index built by `IndexRank64` is at most `64 * len` -/
theorem indexRank64_mem_le {ws : List Nat} {t : Bool} {n : Nat} (h : n ∈ indexRank64 ws t) :
    n ≤ 64 * ws.length := by
  rw [C01_indexRank64, List.mem_map] at h
  obtain ⟨k, hk, rfl⟩ := h
  rw [List.mem_range] at hk
  by_cases hk' : k ≤ ws.length
  · exact Nat.le_trans (rank_le ws _) (by omega)
  · -- only the trailing entry, k = len
    have : k = ws.length := by cases t <;> simp at hk <;> omega
    omega

/-- every entry of the index built by `IndexRank128` is at most `64 * len` -/
theorem indexRank128_mem_le {ws : List Nat} {n : Nat} (h : n ∈ indexRank128 ws) :
    n ≤ 64 * ws.length := by
  rw [C01_indexRank128, List.mem_map] at h
  obtain ⟨k, hk, rfl⟩ := h
  rw [List.mem_range] at hk
  by_cases hk' : 128 * k ≤ 64 * ws.length
  · exact Nat.le_trans (rank_le ws _) hk'
  · -- odd length: the last block is half empty; rank does not grow beyond the bitmap
    have h1 : rank ws (128 * k) = rank ws (64 * ws.length) := by
      have hle : 64 * ws.length ≤ 128 * k := by omega
      obtain ⟨d, hd⟩ := Nat.exists_eq_add_of_le hle
      rw [hd]
      clear hd hle hk hk'
      induction d with
      | zero => rfl
      | succ d ih =>
        rw [← Nat.add_assoc, rank, ih, bitAt_oob (by omega)]; rfl
    rw [h1]; exact rank_le ws _

/-! ### C02: the select index -/

theorem ones_length_le (ws : List Nat) : (ones ws).length ≤ 64 * ws.length := by
  have := List.length_filter_le (bitAt ws) (List.range (64 * ws.length))
  simpa [ones] using this

theorem ones_mem_lt {ws : List Nat} {p : Nat} (h : p ∈ ones ws) : p < 64 * ws.length := by
  simp only [ones, List.mem_filter, List.mem_range] at h; exact h.1

theorem indexSelect32_length_le (ws : List Nat) : (indexSelect32 ws).length ≤ 2 * ws.length + 1 := by
  rw [C02_indexSelect32, List.length_map, List.length_range]
  have := ones_length_le ws; omega

theorem indexSelect32_mem_lt {ws : List Nat} {n : Nat} (h : n ∈ indexSelect32 ws) : n < 64 * ws.length ∨ n = 0 := by
  rw [C02_indexSelect32, List.mem_map] at h
  obtain ⟨k, _, rfl⟩ := h
  simp only [List.getD]
  cases hk : (ones ws)[32 * k]? with
  | none => right; rfl
  | some p => left; exact ones_mem_lt (List.mem_of_getElem? hk)

theorem indexRank64_length (ws : List Nat) (t : Bool) : (indexRank64 ws t).length = ws.length + t.toNat := by
  rw [C01_indexRank64, List.length_map, List.length_range]

/-! ### C09: length of an encoding -/

/-- an encoding returned by `New(s, …)` has at most `len(s) + 1` bytes (no hypothesis) -/
theorem bsNew_length_le {s : List Nat} {f t : Nat} {enc : List Nat} (h : bsNew s f t = some enc) :
    enc.length ≤ s.length + 1 := by
  unfold bsNew at h
  split at h
  · cases h; simp
  · simp only at h
    split at h
    · cases h
    · split at h
      · cases h
      · cases h
        simp only [List.length_append, List.length_take, List.length_drop, List.length_cons, List.length_nil]
        omega

end Low.E2EL
