import LowProofs.Props.C01
/-
  Helper lemmas for the end-to-end theorems (`LowProofs/E2E/Cxx.lean`): bounds on the values the model-built
  indexes contain, so that the int32-domain hypotheses of the tie theorems follow from hypotheses about the
  inputs alone.
-/
namespace Low.E2EL
open Low

/-- the number of 1-bits before position `i` is at most `i` -/
theorem rank_le (ws : List Nat) : ∀ i, rank ws i ≤ i
  | 0 => by simp [rank]
  | i+1 => by
    have := rank_le ws i
    rw [rank]; cases bitAt ws i <;> simp <;> omega

/-- every entry of the index built by `IndexRank64` is at most `64 * len` -/
theorem indexRank64_mem_le {ws : List Nat} {t : Bool} {n : Nat} (h : n ∈ indexRank64 ws t) :
    n ≤ 64 * ws.length := by
  rw [C01_indexRank64, List.mem_map] at h
  obtain ⟨k, hk, rfl⟩ := h
  rw [List.mem_range] at hk
  by_cases hk' : k ≤ ws.length
  · exact Nat.le_trans (rank_le ws _) (by omega)
  · -- only the trailing entry, k = len
    have : k = ws.length := by cases t <;> simp at hk <;> omega
    omega

/-- every entry of the index built by `IndexRank128` is at most `64 * len` -/
theorem indexRank128_mem_le {ws : List Nat} {n : Nat} (h : n ∈ indexRank128 ws) :
    n ≤ 64 * ws.length := by
  rw [C01_indexRank128, List.mem_map] at h
  obtain ⟨k, hk, rfl⟩ := h
  rw [List.mem_range] at hk
  by_cases hk' : 128 * k ≤ 64 * ws.length
  · exact Nat.le_trans (rank_le ws _) hk'
  · -- odd length: the last block is half empty; rank does not grow beyond the bitmap
    have h1 : rank ws (128 * k) = rank ws (64 * ws.length) := by
      have hle : 64 * ws.length ≤ 128 * k := by omega
      obtain ⟨d, hd⟩ := Nat.exists_eq_add_of_le hle
      rw [hd]
      clear hd hle hk hk'
      induction d with
      | zero => rfl
      | succ d ih =>
        rw [← Nat.add_assoc, rank, ih, bitAt_oob (by omega)]; rfl
    rw [h1]; exact rank_le ws _

end Low.E2EL
