import LowProofs.Props.C20
import LowProofs.Tie6.size_Of
/-
  C20 end to end: the clauses of C20 (`C20_of`, `C20_nil`, `C20_table`, `C20_slice_append`) stated PURELY about the
  definitions REGENERATED from the go/ssa form of `size.Of` and `size.sizeof` (`Generated/Ssa6/size_Of.lean`,
  `size_sizeof.lean`: the directly recursive `sizeof` closed with a depth counter, its four loops as recursion on
  `fuel`, `reflect` as the abstract value tree of `LowModel/GoSem6.lean`).  No model function (`sizeOf`, `sizeOfTop`)
  occurs in the statements: only generated code, the specification `structSize` (the property's table, LowModel/SizeOf.lean)
  and `Tie6.erase`, which forgets the `reflect.Kind` of the scalars (the spec is stated on widths).
  (Composition of `Tie_size_Of` with the theorems of `Props/C20.lean`.)

  Domain (hypotheses about the INPUT only): the tree is built from the supported kinds (`(erase v).supported`: no
  chan / func / unsafe.Pointer); lengths are Go ints (`width v ≤ 2^63`); the structural sum is `< 2^63` (it fits the
  `int` result).  Fuel: EVERY `fuel ≥ depth v` and `≥ width v`.
  `C20_stat` (the first line of `Stat`) is NOT restated: `size.stat` formats with `fmt.Sprintf` and is refused by the
  translator (see tools/ssa2lean6/README.md); it calls the same `sizeof(v)`.
-/
namespace Low
open Low.GoSem6 Low.Tie6

/-- C20_of: `size.Of` returns the structural sum (and does not panic) for every value built from the supported kinds -/
theorem E2E_C20_of (fuel : Nat) (v : RVal) (hsup : (erase v).supported = true) (hd : depth v ≤ fuel) (hw : width v ≤ fuel)
    (hl : width v ≤ 9223372036854775808) (hs : structSize (erase v) < 9223372036854775808) :
    Gen.Ssa6.size_Of fuel (some v) = some ((structSize (erase v) : Nat) : Int) := by
  rw [Tie_size_Of fuel v hd hw hl hs, C20_of _ hsup]; rfl

/-- C20_nil: a nil argument has size 0 (for every fuel) -/
theorem E2E_C20_nil (fuel : Nat) : Gen.Ssa6.size_Of fuel none = some 0 := by
  rw [Tie_size_Of_nil]; rfl

/-- the same for `sizeof` itself on a Value (what `Stat` prints in its header line) -/
theorem E2E_C20_sizeof (fuel : Nat) (v : RVal) (hsup : (erase v).supported = true) (hd : depth v ≤ fuel)
    (hw : width v ≤ fuel) (hl : width v ≤ 9223372036854775808) (hs : structSize (erase v) < 9223372036854775808) :
    Gen.Ssa6.size_sizeof fuel (some v) = some ((structSize (erase v) : Nat) : Int) := by
  rw [Tie_size_sizeof fuel v hd hw hl hs, sizeOf_eq _ hsup]; rfl

/-- the domain of the clauses below -/
def InDom (fuel : Nat) (v : RVal) : Prop :=
  (erase v).supported = true ∧ depth v ≤ fuel ∧ width v ≤ fuel ∧ width v ≤ 9223372036854775808 ∧
    structSize (erase v) < 9223372036854775808

theorem E2E_C20_of' {fuel : Nat} {v : RVal} (h : InDom fuel v) :
    Gen.Ssa6.size_Of fuel (some v) = some ((structSize (erase v) : Nat) : Int) :=
  E2E_C20_of fuel v h.1 h.2.1 h.2.2.1 h.2.2.2.1 h.2.2.2.2

/-- C20_table, clause by clause, about the regenerated `size.Of`: the fixed width of a scalar; header 16 / 24 / 8 / 8 /
    16 plus the parts for strings, slices, maps, pointers, interfaces; the plain sum for arrays and structs -/
theorem E2E_C20_table (fuel : Nat) :
    (∀ k, InDom fuel (.scalar k) → Gen.Ssa6.size_Of fuel (some (.scalar k)) = some ((k.size : Nat) : Int)) ∧
    (∀ n, InDom fuel (.str n) → Gen.Ssa6.size_Of fuel (some (.str n)) = some ((16 + n : Nat) : Int)) ∧
    (∀ es, InDom fuel (.slice es) →
      Gen.Ssa6.size_Of fuel (some (.slice es)) = some ((24 + structSizeList (eraseList es) : Nat) : Int)) ∧
    (∀ ps, InDom fuel (.map ps) →
      Gen.Ssa6.size_Of fuel (some (.map ps)) = some ((8 + structSizePairs (erasePairs ps) : Nat) : Int)) ∧
    (InDom fuel (.ptr none) → Gen.Ssa6.size_Of fuel (some (.ptr none)) = some 8) ∧
    (∀ p, InDom fuel (.ptr (some p)) →
      Gen.Ssa6.size_Of fuel (some (.ptr (some p))) = some ((8 + structSize (erase p) : Nat) : Int)) ∧
    (InDom fuel (.iface none) → Gen.Ssa6.size_Of fuel (some (.iface none)) = some 16) ∧
    (∀ p, InDom fuel (.iface (some p)) →
      Gen.Ssa6.size_Of fuel (some (.iface (some p))) = some ((16 + structSize (erase p) : Nat) : Int)) ∧
    (∀ es, InDom fuel (.arr es) →
      Gen.Ssa6.size_Of fuel (some (.arr es)) = some ((structSizeList (eraseList es) : Nat) : Int)) ∧
    (∀ fs, InDom fuel (.struct fs) →
      Gen.Ssa6.size_Of fuel (some (.struct fs)) = some ((structSizeList (eraseList fs) : Nat) : Int)) := by
  refine ⟨?_, ?_, ?_, ?_, ?_, ?_, ?_, ?_, ?_, ?_⟩
  · intro k h; rw [E2E_C20_of' h]; simp [erase, structSize]
  · intro n h; rw [E2E_C20_of' h]; simp [erase, structSize]
  · intro es h; rw [E2E_C20_of' h]; simp [erase, structSize]
  · intro ps h; rw [E2E_C20_of' h]; simp [erase, structSize]
  · intro h; rw [E2E_C20_of' h]; simp [erase, structSize]
  · intro p h; rw [E2E_C20_of' h]; simp [erase, structSize]
  · intro h; rw [E2E_C20_of' h]; simp [erase, structSize]
  · intro p h; rw [E2E_C20_of' h]; simp [erase, structSize]
  · intro es h; rw [E2E_C20_of' h]; simp [erase, structSize]
  · intro fs h; rw [E2E_C20_of' h]; simp [erase, structSize]

theorem eraseList_append : ∀ xs ys : List RVal, eraseList (xs ++ ys) = eraseList xs ++ eraseList ys
  | [], ys => by simp [eraseList]
  | x :: r, ys => by simp [eraseList, eraseList_append r ys]

/-- C20_slice_append: a slice of `xs ++ ys` costs one header plus both parts -/
theorem E2E_C20_slice_append (fuel : Nat) (xs ys : List RVal) (h : InDom fuel (.slice (xs ++ ys))) :
    Gen.Ssa6.size_Of fuel (some (.slice (xs ++ ys)))
      = some ((24 + structSizeList (eraseList xs) + structSizeList (eraseList ys) : Nat) : Int) := by
  rw [E2E_C20_of' h]
  simp only [erase, structSize, eraseList_append, structSizeList_append]
  rw [Nat.add_assoc]

/-- outside the supported kinds: a channel / func / unsafe.Pointer at the top makes `size.Of` panic ("unknown kind") -/
theorem E2E_C20_opaque (fuel : Nat) (k : Opaque) (h : 1 ≤ fuel) : Gen.Ssa6.size_Of fuel (some (.opaque k)) = none := by
  rw [Tie_size_Of fuel (.opaque k) (by simp [depth]; omega) (by simp [width]; omega) (by simp [width])
    (by simp [erase, structSize])]
  simp [erase, sizeOfTop, sizeOf]

/-! ### non-vacuity: the generated definitions EVALUATED on concrete trees (the hypotheses of the clauses hold for them) -/

/-- `struct{ M map[string]int32; P *int64; S string }{ {"ab": 1}, nil, "xyz" }`: (8 + (16+2) + 4) + 8 + (16+3) = 57 -/
def ex1 : RVal := .struct [.map [(.str 2, .scalar .int32)], .ptr none, .str 3]
example : Gen.Ssa6.size_Of 4 (some ex1) = some 57 := by decide
example : InDom 4 ex1 := by unfold InDom; decide

/-- `[][]uint16{{1,2,3},{}}` : 24 + (24 + 6) + 24 = 78; a nil pointer: 8; a string: 16 + 5 -/
def ex2 : RVal := .slice [.slice [.scalar .uint16, .scalar .uint16, .scalar .uint16], .slice []]
example : Gen.Ssa6.size_Of 4 (some ex2) = some 78 := by decide
example : InDom 4 ex2 := by unfold InDom; decide
example : Gen.Ssa6.size_Of 1 (some (.ptr none)) = some 8 := by decide
example : Gen.Ssa6.size_Of 6 (some (.str 5)) = some 21 := by decide
/-- `[]interface{}{uint(7), nil, &struct{A uintptr; B [2]bool}{}}` : 24 + (16+8) + 16 + (16 + 8 + (8 + 2)) = 98 -/
def ex3 : RVal := .slice [.iface (some (.scalar .uint)), .iface none,
  .iface (some (.ptr (some (.struct [.scalar .uintptr, .arr [.scalar .bool, .scalar .bool]]))))]
example : Gen.Ssa6.size_Of 6 (some ex3) = some 98 := by decide
example : InDom 6 ex3 := by unfold InDom; decide
/-- too little fuel is `none`, a func inside a struct panics -/
example : Gen.Ssa6.size_Of 3 (some (.str 5)) = none := by decide
example : Gen.Ssa6.size_Of 9 (some (.struct [.scalar .int, .opaque .func])) = none := by decide

end Low
