import Generated.Ssa7.bitmap_indexSelectU64
import LowProofs.Tie7.bitmap_indexSelectU64_L
/-
  Tie: the definition regenerated from the SSA form of `bitmap.indexSelectU64` (unexported, used only by the tests)
  equals the small model `indexSelectU64` below, for EVERY uint64 `w`.

  The Go function is the classic SWAR popcount (pairs, nibbles, bytes) followed by the multiplication by
  `0x0101010101010101`, which turns the 8 byte counts into the 8 prefix sums, and `| 0x8080808080808080`.
  Proof: `w` is split into its 8 bytes (`Tie7Swar.bytes8`); every step up to the multiplication acts on each byte
  lane separately (`Tie7Swar.pack_*`), the composed per-byte function is the byte popcount (a finite table over
  `Fin 256`), and the multiplication is linear arithmetic on 8 lanes with values `≤ 8` (`omega`).
-/
namespace Low
open Low.GoSem Low.TieL Low.Tie7Swar

/-- MODEL of `indexSelectU64(w)`: the uint64 whose byte `k` (`k < 8`, least significant first) is
    `0x80 | (number of 1-bits among the low 8*(k+1) bits of w)`.  Each count is at most 64, so it fits in the low
    7 bits of its byte and bit 7 is the flag that `selectU64Indexed` uses as a borrow guard. -/
def indexSelectU64 (w : Nat) : Nat :=
  pack [0x80 ||| popc w 8, 0x80 ||| popc w 16, 0x80 ||| popc w 24, 0x80 ||| popc w 32,
        0x80 ||| popc w 40, 0x80 ||| popc w 48, 0x80 ||| popc w 56, 0x80 ||| popc w 64]

namespace Tie7Swar

/-- `0x80 | p = 0x80 + p` for a 7-bit `p` -/
theorem or128 : ∀ p : Fin 128, 0x80 ||| p.val = 128 + p.val := by decide +kernel

theorem or128' {p : Nat} (h : p < 128) : 0x80 ||| p = 128 + p := or128 ⟨p, h⟩

theorem or128'' {p : Nat} (h : p < 128) : p ||| 0x80 = 128 + p := by rw [Nat.or_comm]; exact or128' h

/-! ### the per-byte functions of the SWAR popcount -/

/-- `a := w - ((w >> 1) & 0x55)` on one byte -/
def fA (a : Nat) : Nat := a - ((a >>> 1) &&& 0x55)
/-- `b := (a & 0x33) + ((a >> 2) & 0x33)` on one byte -/
def fB (a : Nat) : Nat := (fA a &&& 0x33) + ((fA a >>> 2) &&& 0x33)
/-- `c := (b + (b >> 4)) & 0x0f` on one byte -/
def fC (a : Nat) : Nat := (fB a + fB a / 16) % 16

/-- finite table: on every byte the pair step does not borrow, the nibble counts are at most 4, and the composed
    function is the byte popcount -/
theorem byte_table : ∀ a : Fin 256,
    ((a.val >>> 1) &&& 0x55) ≤ a.val ∧ fA a.val < 256 ∧ (fB a.val ≤ 68 ∧ fB a.val % 16 ≤ 4) ∧
      fC a.val = popc a.val 8 := by decide +kernel

theorem pack_mod16 : ∀ (as : List Nat), (∀ a ∈ as, a ≤ 68 ∧ a % 16 ≤ 4) → pack as % 16 ≤ 4
  | [], _ => by simp [pack]
  | a :: r, h => by
    have := (h a (List.mem_cons_self ..)).2
    simp only [pack]
    omega

/-- `(b + (b >> 4)) & 0x0f0f…0f` lane by lane: the shift is not masked before the addition, so the low nibble of the
    next lane is added into the high nibble of this one; with nibble values `≤ 4` no lane overflows and the mask
    removes the cross-lane part. -/
theorem pack_fold4 : ∀ (as : List Nat), (∀ a ∈ as, a ≤ 68 ∧ a % 16 ≤ 4) →
    (pack as + (pack as >>> 4)) &&& pack (List.replicate as.length 15) = pack (as.map fun a => (a + a / 16) % 16)
  | [], _ => by simp [pack]
  | a :: r, h => by
    have ha := h a (List.mem_cons_self ..)
    have hr : ∀ x ∈ r, x ≤ 68 ∧ x % 16 ≤ 4 := fun x hx => h x (List.mem_cons_of_mem _ hx)
    have hm := pack_mod16 r hr
    have ih := pack_fold4 r hr
    rw [List.length_cons, pack_replicate_succ, List.map_cons]
    simp only [pack]
    generalize pack r = x at hm ih ⊢
    generalize pack (List.replicate r.length 15) = y at ih ⊢
    have e : a + 256 * x + (a + 256 * x) >>> 4 = (a + a / 16 + 16 * (x % 16)) + 256 * (x + x >>> 4) := by
      simp only [Nat.shiftRight_eq_div_pow, Nat.reducePow]
      omega
    have hL : a + a / 16 + 16 * (x % 16) < 256 := by omega
    rw [e, lane_and _ _ _ _ hL (by decide : 15 < 256), ih]
    have e2 : (a + a / 16 + 16 * (x % 16)) &&& 15 = (a + a / 16) % 16 := by
      rw [show (15 : Nat) = 2 ^ 4 - 1 from rfl, Nat.and_two_pow_sub_one_eq_mod]
      omega
    rw [e2]

theorem pack_lt68 : ∀ (as : List Nat), (∀ a ∈ as, a ≤ 68 ∧ a % 16 ≤ 4) → 3 * pack as < 256 ^ as.length
  | [], _ => by simp [pack]
  | a :: r, h => by
    have h1 := (h a (List.mem_cons_self ..)).1
    have h2 := pack_lt68 r (fun x hx => h x (List.mem_cons_of_mem _ hx))
    simp only [pack, List.length_cons, Nat.pow_succ]
    omega

theorem quo3 : GoSem7.quoU64 18446744073709551615 3 = some (pack (List.replicate 8 0x55)) := by decide
theorem quo5 : GoSem7.quoU64 18446744073709551615 5 = some (pack (List.replicate 8 0x33)) := by decide
theorem quo17 : GoSem7.quoU64 18446744073709551615 17 = some (pack (List.replicate 8 0x0f)) := by decide

theorem bytes8_length (w : Nat) : (bytes8 w).length = 8 := rfl

/-- the SWAR popcount proper: after `c := (b + (b >> 4)) & mask00001111` byte `k` of `c` is the popcount of byte `k`
    of `w` -/
theorem swar_bytes (w : Nat) (hw : w < 2 ^ 64) :
    andU64 (addU64
        (addU64 (andU64 (subU64 w (andU64 (shrU64 w 1) (pack (List.replicate 8 0x55)))) (pack (List.replicate 8 0x33)))
          (andU64 (shrU64 (subU64 w (andU64 (shrU64 w 1) (pack (List.replicate 8 0x55)))) 2)
            (pack (List.replicate 8 0x33))))
        (shrU64 (addU64 (andU64 (subU64 w (andU64 (shrU64 w 1) (pack (List.replicate 8 0x55))))
              (pack (List.replicate 8 0x33)))
          (andU64 (shrU64 (subU64 w (andU64 (shrU64 w 1) (pack (List.replicate 8 0x55)))) 2)
            (pack (List.replicate 8 0x33)))) 4))
      (pack (List.replicate 8 0x0f))
    = pack ((bytes8 w).map fun a => popc a 8) := by
  have hb := bytes8_bytes w
  have hlen := bytes8_length w
  have hM : (256 : Nat) ^ 8 = M64 := by decide
  -- t4
  have h4 : andU64 (shrU64 w 1) (pack (List.replicate 8 0x55)) = pack ((bytes8 w).map fun a => (a >>> 1) &&& 0x55) := by
    rw [andU64_eq, shrU64_lt w (by decide : 1 < 64)]
    conv => lhs; rw [← pack_bytes8 w hw, ← hlen]
    exact pack_shr_and 1 0x55 (by decide) (by decide) _ hb
  -- t5
  have hsub := pack_sub (fun a => a) (fun a => (a >>> 1) &&& 0x55) (bytes8 w)
    (fun b hbm => (byte_table ⟨b, hb b hbm⟩).1)
  rw [List.map_id', pack_bytes8 w hw] at hsub
  have h5 : subU64 w (andU64 (shrU64 w 1) (pack (List.replicate 8 0x55))) = pack ((bytes8 w).map fA) := by
    rw [h4, subU64, sub64_of_le hsub.1 (by simp only [M64]; simp only [Nat.reducePow] at hw; exact hw)]
    exact hsub.2
  have hbA : Bytes ((bytes8 w).map fA) := hb.map (fun a ha => (byte_table ⟨a, ha⟩).2.1)
  have hlenA : ((bytes8 w).map fA).length = 8 := by rw [List.length_map]; rfl
  -- t6, t8
  have h6 : andU64 (pack ((bytes8 w).map fA)) (pack (List.replicate 8 0x33))
      = pack ((bytes8 w).map fun a => fA a &&& 0x33) := by
    rw [andU64_eq]
    conv => lhs; rw [← hlenA]
    rw [pack_and 0x33 (by decide) _ hbA, List.map_map]
    rfl
  have h8 : andU64 (shrU64 (pack ((bytes8 w).map fA)) 2) (pack (List.replicate 8 0x33))
      = pack ((bytes8 w).map fun a => (fA a >>> 2) &&& 0x33) := by
    rw [andU64_eq, shrU64_lt _ (by decide : 2 < 64)]
    conv => lhs; rw [← hlenA]
    rw [pack_shr_and 2 0x33 (by decide) (by decide) _ hbA, List.map_map]
    rfl
  -- t9
  have hnib : ∀ a ∈ (bytes8 w).map fB, a ≤ 68 ∧ a % 16 ≤ 4 := by
    intro x hx
    obtain ⟨a, ha, rfl⟩ := List.mem_map.mp hx
    exact (byte_table ⟨a, hb a ha⟩).2.2.1
  have hbB : Bytes ((bytes8 w).map fB) := fun x hx => by have := (hnib x hx).1; omega
  have hltB : pack ((bytes8 w).map fB) < M64 := by
    have := pack_lt _ hbB
    rw [List.length_map, hlen, hM] at this
    exact this
  have h9 : addU64 (pack ((bytes8 w).map fun a => fA a &&& 0x33)) (pack ((bytes8 w).map fun a => (fA a >>> 2) &&& 0x33))
      = pack ((bytes8 w).map fB) := by
    have e := pack_add (fun a => fA a &&& 0x33) (fun a => (fA a >>> 2) &&& 0x33) (bytes8 w)
    have e' : pack ((bytes8 w).map fun a => (fA a &&& 0x33) + ((fA a >>> 2) &&& 0x33)) = pack ((bytes8 w).map fB) := rfl
    rw [addU64, add64_of_lt (by rw [e, e']; exact hltB), e, e']
  -- t11, t12
  have hfold := pack_fold4 _ hnib
  rw [List.length_map, hlen, List.map_map] at hfold
  have hbC : Bytes ((bytes8 w).map fC) :=
    hb.map (fun a _ => by unfold fC; omega)
  have hltC : pack ((bytes8 w).map fC) < M64 := by
    have := pack_lt _ hbC
    rw [List.length_map, hlen, hM] at this
    exact this
  rw [h5, h6, h8, h9, shrU64_lt _ (by decide : 4 < 64), andU64_eq, addU64]
  -- the sum `b + (b >> 4)` does not wrap: it is below `2^64` because `b` has bytes `≤ 68`
  have hsum : pack ((bytes8 w).map fB) + pack ((bytes8 w).map fB) >>> 4 < M64 := by
    have h3 := pack_lt68 _ hnib
    rw [List.length_map, hlen, hM] at h3
    have : pack ((bytes8 w).map fB) >>> 4 ≤ pack ((bytes8 w).map fB) := by
      rw [Nat.shiftRight_eq_div_pow]; exact Nat.div_le_self _ _
    simp only [M64] at h3 ⊢
    omega
  rw [add64_of_lt hsum, hfold]
  exact pack_map_congr hb (fun a ha => (byte_table ⟨a, ha⟩).2.2.2)

/-- the multiplication by `0x0101010101010101` on 8 byte lanes with values `≤ 8` gives the prefix sums -/
theorem mul_prefix (c0 c1 c2 c3 c4 c5 c6 c7 : Nat)
    (h0 : c0 ≤ 8) (h1 : c1 ≤ 8) (h2 : c2 ≤ 8) (h3 : c3 ≤ 8) (h4 : c4 ≤ 8) (h5 : c5 ≤ 8) (h6 : c6 ≤ 8) (h7 : c7 ≤ 8) :
    mulU64 (pack [c0, c1, c2, c3, c4, c5, c6, c7]) 72340172838076673
      = pack [c0, c0 + c1, c0 + c1 + c2, c0 + c1 + c2 + c3, c0 + c1 + c2 + c3 + c4, c0 + c1 + c2 + c3 + c4 + c5,
          c0 + c1 + c2 + c3 + c4 + c5 + c6, c0 + c1 + c2 + c3 + c4 + c5 + c6 + c7] := by
  simp only [mulU64, pack, M64]
  omega

end Tie7Swar

open Tie7Swar

/-- Domain: every uint64 `w` (`w < 2^64` is the representation invariant of a `uint64` argument).  The function has
    no loop, no memory access and no panic (the three divisions have non-zero constant divisors). -/
theorem Tie_bitmap_indexSelectU64 (w : Nat) (hw : w < 2 ^ 64) :
    Gen.Ssa7.bitmap_indexSelectU64 w = some (indexSelectU64 w) := by
  have hsw := swar_bytes w hw
  have hc : ∀ k, popc (byteOf w k) 8 ≤ 8 := fun k => popc_le _ 8
  have p0 : popc w 0 = 0 := rfl
  have p1 := popc_succ_byte w 0
  have p2 := popc_succ_byte w 1
  have p3 := popc_succ_byte w 2
  have p4 := popc_succ_byte w 3
  have p5 := popc_succ_byte w 4
  have p6 := popc_succ_byte w 5
  have p7 := popc_succ_byte w 6
  have p8 := popc_succ_byte w 7
  simp only [Nat.reduceMul, Nat.reduceAdd, Nat.mul_zero, p0, Nat.zero_add] at p1 p2 p3 p4 p5 p6 p7 p8
  unfold Gen.Ssa7.bitmap_indexSelectU64
  simp only [quo3, quo5, quo17, Option.bind_some]
  rw [hsw]
  simp only [bytes8, List.map_cons, List.map_nil]
  rw [mul_prefix _ _ _ _ _ _ _ _ (hc 0) (hc 1) (hc 2) (hc 3) (hc 4) (hc 5) (hc 6) (hc 7)]
  have hor : (9259542123273814144 : Nat) = pack (List.replicate 8 0x80) := by decide
  rw [orU64_eq, hor]
  have hbytes : Bytes [popc (byteOf w 0) 8, popc (byteOf w 0) 8 + popc (byteOf w 1) 8,
      popc (byteOf w 0) 8 + popc (byteOf w 1) 8 + popc (byteOf w 2) 8,
      popc (byteOf w 0) 8 + popc (byteOf w 1) 8 + popc (byteOf w 2) 8 + popc (byteOf w 3) 8,
      popc (byteOf w 0) 8 + popc (byteOf w 1) 8 + popc (byteOf w 2) 8 + popc (byteOf w 3) 8 + popc (byteOf w 4) 8,
      popc (byteOf w 0) 8 + popc (byteOf w 1) 8 + popc (byteOf w 2) 8 + popc (byteOf w 3) 8 + popc (byteOf w 4) 8
        + popc (byteOf w 5) 8,
      popc (byteOf w 0) 8 + popc (byteOf w 1) 8 + popc (byteOf w 2) 8 + popc (byteOf w 3) 8 + popc (byteOf w 4) 8
        + popc (byteOf w 5) 8 + popc (byteOf w 6) 8,
      popc (byteOf w 0) 8 + popc (byteOf w 1) 8 + popc (byteOf w 2) 8 + popc (byteOf w 3) 8 + popc (byteOf w 4) 8
        + popc (byteOf w 5) 8 + popc (byteOf w 6) 8 + popc (byteOf w 7) 8] := by
    intro a ha
    have h0 := hc 0; have h1 := hc 1; have h2 := hc 2; have h3 := hc 3
    have h4 := hc 4; have h5 := hc 5; have h6 := hc 6; have h7 := hc 7
    simp only [List.mem_cons, List.not_mem_nil, or_false] at ha
    rcases ha with rfl | rfl | rfl | rfl | rfl | rfl | rfl | rfl <;> omega
  have := pack_or 0x80 (by decide) _ hbytes
  simp only [List.length_cons, List.length_nil, Nat.reduceAdd] at this
  rw [this]
  simp only [List.map_cons, List.map_nil, indexSelectU64]
  rw [p8, p7, p6, p5, p4, p3, p2, p1]
  simp only [Nat.or_comm 128]

/-- the model, byte by byte (what the Go comment promises: "element a[i] is the count of 1 in the least (i+1)*8 bits",
    plus the flag bit) -/
theorem indexSelectU64_byte (w k : Nat) (hk : k < 8) :
    (indexSelectU64 w >>> (8 * k)) % 256 = 0x80 ||| popc w (8 * (k + 1)) := by
  have e8 := or128' (Nat.lt_of_le_of_lt (popc_le w 8) (by decide : 8 < 128))
  have e16 := or128' (Nat.lt_of_le_of_lt (popc_le w 16) (by decide : 16 < 128))
  have e24 := or128' (Nat.lt_of_le_of_lt (popc_le w 24) (by decide : 24 < 128))
  have e32 := or128' (Nat.lt_of_le_of_lt (popc_le w 32) (by decide : 32 < 128))
  have e40 := or128' (Nat.lt_of_le_of_lt (popc_le w 40) (by decide : 40 < 128))
  have e48 := or128' (Nat.lt_of_le_of_lt (popc_le w 48) (by decide : 48 < 128))
  have e56 := or128' (Nat.lt_of_le_of_lt (popc_le w 56) (by decide : 56 < 128))
  have e64 := or128' (Nat.lt_of_le_of_lt (popc_le w 64) (by decide : 64 < 128))
  have h8 := popc_le w 8; have h16 := popc_le w 16; have h24 := popc_le w 24; have h32 := popc_le w 32
  have h40 := popc_le w 40; have h48 := popc_le w 48; have h56 := popc_le w 56; have h64 := popc_le w 64
  have hk' : k = 0 ∨ k = 1 ∨ k = 2 ∨ k = 3 ∨ k = 4 ∨ k = 5 ∨ k = 6 ∨ k = 7 := by omega
  unfold indexSelectU64
  rcases hk' with rfl | rfl | rfl | rfl | rfl | rfl | rfl | rfl <;>
    simp only [pack, Nat.shiftRight_eq_div_pow, Nat.reduceMul, Nat.reduceAdd, Nat.reducePow, e8, e16, e24, e32, e40,
      e48, e56, e64] <;> omega

example : Gen.Ssa7.bitmap_indexSelectU64 0xFFFFFFFFFFFFFFFF = some 0xC0B8B0A8A0989088 := by decide +kernel
example : indexSelectU64 0xFFFFFFFFFFFFFFFF = 0xC0B8B0A8A0989088 := by decide +kernel
example : Gen.Ssa7.bitmap_indexSelectU64 0x8000000000000101 = some 0x8382828282828281 := by decide +kernel
example : indexSelectU64 0 = 0x8080808080808080 := by decide +kernel

example := Tie_bitmap_indexSelectU64 0x8000000000000101 (by decide)

end Low
