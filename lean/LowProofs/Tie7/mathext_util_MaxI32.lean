import Generated.Ssa7.mathext_util_MaxI32
import LowProofs.Tie7.mathext_util_L
/- Tie of `mathext/util.MaxI32` (regenerated definition = specification); see `mathext_util_L.lean`. -/
namespace Low

/-- `MaxI32(a, b)` (`int32`) is the larger of its arguments, for ALL values (the generated definition
    only compares its arguments; a comparison of in-range representatives is the Go comparison of the type). -/
theorem Tie_mathext_util_MaxI32 (a b : Int) : Gen.Ssa7.mathext_util_MaxI32 a b = max a b := by
  unfold Gen.Ssa7.mathext_util_MaxI32
  simp only [decide_eq_true_eq]
  split <;> omega

/-- arguments that are `int32` values give a `int32` value -/
theorem Tie_mathext_util_MaxI32_range (a b : Int) (ha : Util.InS 32 a) (hb : Util.InS 32 b) :
    Util.InS 32 (Gen.Ssa7.mathext_util_MaxI32 a b) := by
  rw [Tie_mathext_util_MaxI32]; exact Util.InS_max ha hb

example : Gen.Ssa7.mathext_util_MaxI32 (-3) 2 = 2 := by decide

end Low
