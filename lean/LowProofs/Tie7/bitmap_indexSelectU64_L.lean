import LowModel.GoSem
import LowProofs.Lemmas.Bits
import LowProofs.Tie.Lemmas
/-
  Byte-lane ("SWAR") arithmetic for the ties of `bitmap.indexSelectU64` and `bitmap.selectU64Indexed`:
  a uint64 seen as the little-endian list of its 8 bytes (`pack`), and how `>> s & mask`, `&`, `|`, `+`, `-`
  act lane by lane when no lane overflows.
-/
namespace Low.Tie7Swar
open Low

/-- the number whose little-endian base-256 digits are the list -/
def pack : List Nat → Nat
  | [] => 0
  | b :: r => b + 256 * pack r

/-- all entries are bytes -/
def Bytes (as : List Nat) : Prop := ∀ a ∈ as, a < 256

theorem Bytes.head {a : Nat} {r : List Nat} (h : Bytes (a :: r)) : a < 256 := h a (List.mem_cons_self ..)
theorem Bytes.tail {a : Nat} {r : List Nat} (h : Bytes (a :: r)) : Bytes r :=
  fun x hx => h x (List.mem_cons_of_mem _ hx)

theorem Bytes.map {bs : List Nat} {f : Nat → Nat} (hf : ∀ a, a < 256 → f a < 256) (hb : Bytes bs) :
    Bytes (bs.map f) := by
  intro x hx
  obtain ⟨a, ha, rfl⟩ := List.mem_map.mp hx
  exact hf a (hb a ha)

theorem pack_lt : ∀ (as : List Nat), Bytes as → pack as < 256 ^ as.length
  | [], _ => by simp [pack]
  | a :: r, h => by
    have h1 := h.head
    have h2 := pack_lt r h.tail
    simp only [pack, List.length_cons, Nat.pow_succ]
    omega

/-! ### one lane -/

theorem lane_testBit (a x j : Nat) (ha : a < 256) :
    (a + 256 * x).testBit j = if j < 8 then a.testBit j else x.testBit (j - 8) := by
  have := Nat.testBit_two_pow_mul_add x (i := 8) (b := a) ha j
  rw [← this]
  congr 1
  omega

theorem lane_and (a b x y : Nat) (ha : a < 256) (hb : b < 256) :
    (a + 256 * x) &&& (b + 256 * y) = (a &&& b) + 256 * (x &&& y) := by
  have hab : a &&& b < 256 := Nat.lt_of_le_of_lt Nat.and_le_left ha
  apply Nat.eq_of_testBit_eq
  intro j
  rw [Nat.testBit_and, lane_testBit _ _ _ ha, lane_testBit _ _ _ hb, lane_testBit _ _ _ hab]
  by_cases hj : j < 8 <;> simp [hj]

theorem lane_or (a b x y : Nat) (ha : a < 256) (hb : b < 256) :
    (a + 256 * x) ||| (b + 256 * y) = (a ||| b) + 256 * (x ||| y) := by
  have hab : a ||| b < 256 := Nat.or_lt_two_pow (n := 8) ha hb
  apply Nat.eq_of_testBit_eq
  intro j
  rw [Nat.testBit_or, lane_testBit _ _ _ ha, lane_testBit _ _ _ hb, lane_testBit _ _ _ hab]
  by_cases hj : j < 8 <;> simp [hj]

/-- `(x >> s) & mask` on one lane: the bits that cross the lane boundary are masked out (`m < 2^(8-s)`) -/
theorem lane_shr_and (s a m x y : Nat) (hs : s ≤ 8) (ha : a < 256) (hm : m < 2 ^ (8 - s)) :
    ((a + 256 * x) >>> s) &&& (m + 256 * y) = ((a >>> s) &&& m) + 256 * ((x >>> s) &&& y) := by
  have hm8 : m < 256 := Nat.lt_of_lt_of_le hm (Nat.pow_le_pow_right (by decide) (by omega) : 2 ^ (8 - s) ≤ 2 ^ 8)
  have hab : (a >>> s) &&& m < 256 := Nat.lt_of_le_of_lt Nat.and_le_right hm8
  apply Nat.eq_of_testBit_eq
  intro j
  rw [Nat.testBit_and, Nat.testBit_shiftRight, lane_testBit _ _ _ ha, lane_testBit _ _ _ hm8,
    lane_testBit _ _ _ hab, Nat.testBit_and, Nat.testBit_and, Nat.testBit_shiftRight, Nat.testBit_shiftRight]
  by_cases hj : j < 8
  · by_cases hj2 : s + j < 8
    · simp [hj, hj2]
    · have : m.testBit j = false :=
        Nat.testBit_lt_two_pow (Nat.lt_of_lt_of_le hm (Nat.pow_le_pow_right (by decide) (by omega)))
      simp [hj, hj2, this]
  · have hj2 : ¬ (s + j < 8) := by omega
    have e : s + j - 8 = s + (j - 8) := by omega
    simp [hj, hj2, e]

/-! ### all lanes -/

theorem pack_replicate_succ (n m : Nat) : pack (List.replicate (n + 1) m) = m + 256 * pack (List.replicate n m) := rfl

/-- `(x >> s) & (m m m … m)` lane by lane -/
theorem pack_shr_and (s m : Nat) (hs : s ≤ 8) (hm : m < 2 ^ (8 - s)) :
    ∀ (as : List Nat), Bytes as →
      (pack as >>> s) &&& pack (List.replicate as.length m) = pack (as.map fun a => (a >>> s) &&& m)
  | [], _ => by simp [pack]
  | a :: r, h => by
    rw [List.length_cons, pack_replicate_succ, List.map_cons]
    simp only [pack]
    rw [lane_shr_and s a m _ _ hs h.head hm, pack_shr_and s m hs hm r h.tail]

/-- `x & (m m … m)` lane by lane -/
theorem pack_and (m : Nat) (hm : m < 256) :
    ∀ (as : List Nat), Bytes as →
      pack as &&& pack (List.replicate as.length m) = pack (as.map fun a => a &&& m)
  | [], _ => by simp [pack]
  | a :: r, h => by
    rw [List.length_cons, pack_replicate_succ, List.map_cons]
    simp only [pack]
    rw [lane_and a m _ _ h.head hm, pack_and m hm r h.tail]

/-- `x | (m m … m)` lane by lane -/
theorem pack_or (m : Nat) (hm : m < 256) :
    ∀ (as : List Nat), Bytes as →
      pack as ||| pack (List.replicate as.length m) = pack (as.map fun a => a ||| m)
  | [], _ => by simp [pack]
  | a :: r, h => by
    rw [List.length_cons, pack_replicate_succ, List.map_cons]
    simp only [pack]
    rw [lane_or a m _ _ h.head hm, pack_or m hm r h.tail]

/-- addition lane by lane (in `Nat`: no hypothesis) -/
theorem pack_add (f g : Nat → Nat) :
    ∀ (bs : List Nat), pack (bs.map f) + pack (bs.map g) = pack (bs.map fun a => f a + g a)
  | [] => rfl
  | b :: r => by
    have ih := pack_add f g r
    simp only [List.map_cons, pack]
    omega

/-- subtraction lane by lane when no lane borrows -/
theorem pack_sub (f g : Nat → Nat) :
    ∀ (bs : List Nat), (∀ b ∈ bs, g b ≤ f b) →
      pack (bs.map g) ≤ pack (bs.map f) ∧ pack (bs.map f) - pack (bs.map g) = pack (bs.map fun a => f a - g a)
  | [], _ => ⟨Nat.le_refl _, rfl⟩
  | b :: r, h => by
    have h1 := h b (List.mem_cons_self ..)
    have ih := pack_sub f g r (fun x hx => h x (List.mem_cons_of_mem _ hx))
    simp only [List.map_cons, pack]
    omega

theorem pack_map_congr {f g : Nat → Nat} {bs : List Nat} (hb : Bytes bs) (h : ∀ a, a < 256 → f a = g a) :
    pack (bs.map f) = pack (bs.map g) := by
  congr 1
  exact List.map_congr_left fun a ha => h a (hb a ha)

/-! ### the bytes of a word -/

/-- byte `k` of `w` -/
def byteOf (w k : Nat) : Nat := (w >>> (8 * k)) % 256

/-- the 8 bytes of a uint64, least significant first -/
def bytes8 (w : Nat) : List Nat :=
  [byteOf w 0, byteOf w 1, byteOf w 2, byteOf w 3, byteOf w 4, byteOf w 5, byteOf w 6, byteOf w 7]

theorem byteOf_lt (w k : Nat) : byteOf w k < 256 := Nat.mod_lt _ (by decide)

theorem bytes8_bytes (w : Nat) : Bytes (bytes8 w) := by
  intro a ha
  simp only [bytes8, List.mem_cons, List.not_mem_nil, or_false] at ha
  rcases ha with rfl | rfl | rfl | rfl | rfl | rfl | rfl | rfl <;> exact byteOf_lt _ _

theorem pack_bytes8 (w : Nat) (hw : w < 2 ^ 64) : pack (bytes8 w) = w := by
  simp only [bytes8, byteOf, pack, Nat.shiftRight_eq_div_pow, Nat.reducePow, Nat.reduceMul] at hw ⊢
  omega

theorem popc_byteOf (w k : Nat) : popc (byteOf w k) 8 = popc (w >>> (8 * k)) 8 := by
  apply popc_congr
  intro j hj
  have e2 : (256 : Nat) = 2 ^ 8 := by decide
  rw [byteOf, e2, Nat.testBit_mod_two_pow]
  simp [hj]

/-- prefix popcounts: one more byte -/
theorem popc_succ_byte (w k : Nat) : popc w (8 * (k + 1)) = popc w (8 * k) + popc (byteOf w k) 8 := by
  rw [popc_byteOf, ← popc_add]
  rfl

/-! ### uint64 operations without wrap-around -/

theorem sub64_of_le {x y : Nat} (hle : y ≤ x) (hx : x < M64) : sub64 x y = x - y := by
  unfold sub64
  simp only [M64] at hx ⊢
  omega

theorem add64_of_lt {x y : Nat} (h : x + y < M64) : add64 x y = x + y := by
  unfold add64
  exact Nat.mod_eq_of_lt h

end Low.Tie7Swar
