import Generated.Ssa7.mathext_util_MinI16
import LowProofs.Tie7.mathext_util_L
/- Tie of `mathext/util.MinI16` (regenerated definition = specification); see `mathext_util_L.lean`. -/
namespace Low

/-- `MinI16(a, b)` (`int16`) is the smaller of its arguments, for ALL values (the generated definition
    only compares its arguments; a comparison of in-range representatives is the Go comparison of the type). -/
theorem Tie_mathext_util_MinI16 (a b : Int) : Gen.Ssa7.mathext_util_MinI16 a b = min a b := by
  unfold Gen.Ssa7.mathext_util_MinI16
  simp only [decide_eq_true_eq]
  split <;> omega

/-- arguments that are `int16` values give a `int16` value -/
theorem Tie_mathext_util_MinI16_range (a b : Int) (ha : Util.InS 16 a) (hb : Util.InS 16 b) :
    Util.InS 16 (Gen.Ssa7.mathext_util_MinI16 a b) := by
  rw [Tie_mathext_util_MinI16]; exact Util.InS_min ha hb

example : Gen.Ssa7.mathext_util_MinI16 (-3) 2 = (-3) := by decide

end Low
