import Generated.Ssa7.mathext_util_ClapI64
import LowProofs.Tie7.mathext_util_L
/- Tie of `mathext/util.ClapI64` (regenerated definition = specification); see `mathext_util_L.lean`. -/
namespace Low

/-- `ClapI64(n, min, max)` (`int64`) is the clamp of `n` into `[min, max]`, for ALL values (the generated definition only
    compares its arguments).  When `min > max` the result is `max` (`Util.clampI_gt`; the source documents nothing). -/
theorem Tie_mathext_util_ClapI64 (n lo hi : Int) : Gen.Ssa7.mathext_util_ClapI64 n lo hi = Util.clampI n lo hi := by
  unfold Gen.Ssa7.mathext_util_ClapI64 Util.clampI
  simp only [decide_eq_true_eq]
  split <;> split <;> omega

/-- arguments that are `int64` values give a `int64` value -/
theorem Tie_mathext_util_ClapI64_range (n lo hi : Int) (hn : Util.InS 64 n) (hl : Util.InS 64 lo) (hh : Util.InS 64 hi) :
    Util.InS 64 (Gen.Ssa7.mathext_util_ClapI64 n lo hi) := by
  rw [Tie_mathext_util_ClapI64]; exact Util.InS_clamp hn hl hh

example : Gen.Ssa7.mathext_util_ClapI64 9 (-1) 5 = 5 := by decide
-- bounds the wrong way round: the upper bound wins
example : Gen.Ssa7.mathext_util_ClapI64 0 5 (-1) = (-1) := by decide

end Low
