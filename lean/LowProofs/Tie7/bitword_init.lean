import Generated.Ssa7.bitword_init
import LowModel.Bitword
import LowModel.GoSem7
/-
  Tie: the definition regenerated from the SSA form of the PACKAGE INITIALISER of bitword (`bitword.init`, synthesized by
  go/ssa: the initialiser expression of the exported table
  `BitWord = map[int]Interface{1: newBW(1), 2: newBW(2), 4: newBW(4), 8: newBW(8)}`) returns the map as the list of its
  (key, value) pairs, each value the tuple `(width, byteCap, wordMask)` of the struct `newBW` allocates.
  The translator has checked (tools/ssa2lean7/init7.go) that nothing else in the program writes `BitWord` (the map is
  only looked up).  No loop, no fuel; closed, evaluated by the kernel.
-/
namespace Low
open Low.GoSem7

theorem Tie_bitword_init :
    Gen.Ssa7.bitword_init = some [(1, (1, 8, 1)), (2, (2, 4, 3)), (4, (4, 2, 15)), (8, (8, 1, 255))] := by decide +kernel

/-- `BitWord[n]` for the four widths is the struct with the fields under which the ties of the `bitWord` methods are
    stated; every other key is absent. -/
theorem Tie_bitword_BitWord_lookup (n : Nat) (hn : n = 1 ∨ n = 2 ∨ n = 4 ∨ n = 8) :
    Gen.Ssa7.bitword_init.bind (fun m => mapLookup m (n : Int)) = some ((n : Int), ((8 / n : Nat) : Int), bwWordMask n) := by
  rw [Tie_bitword_init]
  rcases hn with h | h | h | h <;> subst h <;> decide

theorem Tie_bitword_BitWord_absent (k : Int) (h : k ≠ 1 ∧ k ≠ 2 ∧ k ≠ 4 ∧ k ≠ 8) :
    Gen.Ssa7.bitword_init.bind (fun m => mapLookup m k) = none := by
  rw [Tie_bitword_init]
  obtain ⟨h1, h2, h4, h8⟩ := h
  simp [mapLookup, Ne.symm h1, Ne.symm h2, Ne.symm h4, Ne.symm h8]

end Low
