import Generated.Ssa7.mathext_util_MaxU16
import LowProofs.Tie7.mathext_util_L
/- Tie of `mathext/util.MaxU16` (regenerated definition = specification); see `mathext_util_L.lean`. -/
namespace Low

/-- `MaxU16(a, b)` (`uint16`) is the larger of its arguments, for ALL values (the generated definition
    only compares its arguments; a comparison of in-range representatives is the Go comparison of the type). -/
theorem Tie_mathext_util_MaxU16 (a b : Nat) : Gen.Ssa7.mathext_util_MaxU16 a b = max a b := by
  unfold Gen.Ssa7.mathext_util_MaxU16
  simp only [decide_eq_true_eq]
  split <;> omega

/-- arguments that are `uint16` values give a `uint16` value -/
theorem Tie_mathext_util_MaxU16_range (a b : Nat) (ha : Util.InU 16 a) (hb : Util.InU 16 b) :
    Util.InU 16 (Gen.Ssa7.mathext_util_MaxU16 a b) := by
  rw [Tie_mathext_util_MaxU16]; exact Util.InU_max ha hb

example : Gen.Ssa7.mathext_util_MaxU16 3 2 = 3 := by decide

end Low
