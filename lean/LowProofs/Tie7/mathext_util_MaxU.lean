import Generated.Ssa7.mathext_util_MaxU
import LowProofs.Tie7.mathext_util_L
/- Tie of `mathext/util.MaxU` (regenerated definition = specification); see `mathext_util_L.lean`. -/
namespace Low

/-- `MaxU(a, b)` (`uint`) is the larger of its arguments, for ALL values (the generated definition
    only compares its arguments; a comparison of in-range representatives is the Go comparison of the type). -/
theorem Tie_mathext_util_MaxU (a b : Nat) : Gen.Ssa7.mathext_util_MaxU a b = max a b := by
  unfold Gen.Ssa7.mathext_util_MaxU
  simp only [decide_eq_true_eq]
  split <;> omega

/-- arguments that are `uint` values give a `uint` value -/
theorem Tie_mathext_util_MaxU_range (a b : Nat) (ha : Util.InU 64 a) (hb : Util.InU 64 b) :
    Util.InU 64 (Gen.Ssa7.mathext_util_MaxU a b) := by
  rw [Tie_mathext_util_MaxU]; exact Util.InU_max ha hb

example : Gen.Ssa7.mathext_util_MaxU 3 2 = 3 := by decide

end Low
