import Generated.Ssa7.mathext_util_ClapI8
import LowProofs.Tie7.mathext_util_L
/- Tie of `mathext/util.ClapI8` (regenerated definition = specification); see `mathext_util_L.lean`. -/
namespace Low

/-- `ClapI8(n, min, max)` (`int8`) is the clamp of `n` into `[min, max]`, for ALL values (the generated definition only
    compares its arguments).  When `min > max` the result is `max` (`Util.clampI_gt`; the source documents nothing). -/
theorem Tie_mathext_util_ClapI8 (n lo hi : Int) : Gen.Ssa7.mathext_util_ClapI8 n lo hi = Util.clampI n lo hi := by
  unfold Gen.Ssa7.mathext_util_ClapI8 Util.clampI
  simp only [decide_eq_true_eq]
  split <;> split <;> omega

/-- arguments that are `int8` values give a `int8` value -/
theorem Tie_mathext_util_ClapI8_range (n lo hi : Int) (hn : Util.InS 8 n) (hl : Util.InS 8 lo) (hh : Util.InS 8 hi) :
    Util.InS 8 (Gen.Ssa7.mathext_util_ClapI8 n lo hi) := by
  rw [Tie_mathext_util_ClapI8]; exact Util.InS_clamp hn hl hh

example : Gen.Ssa7.mathext_util_ClapI8 9 (-1) 5 = 5 := by decide
-- bounds the wrong way round: the upper bound wins
example : Gen.Ssa7.mathext_util_ClapI8 0 5 (-1) = (-1) := by decide

end Low
