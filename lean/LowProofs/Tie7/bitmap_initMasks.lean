import Generated.Ssa7.bitmap_initMasks
import LowModel.GoSem2
import LowProofs.Tie2.Lemmas
/-
  Tie: the definition regenerated from the SSA form of `bitmap.initMasks` — the function that fills the six
  package-level tables `Mask`, `RMask` ([65]uint64), `MaskUpto`, `RMaskUpto`, `Bit`, `RBit` ([64]uint64) during package
  initialisation — returns exactly the tables that the vocabulary `GoSem.tblMask … tblRBit` (and through it every
  tie and every property theorem) assumes: entry `j` is `mask j`, `rmask j`, … of `LowModel/Bits.lean`, for ALL indices.
  The generated definition starts from the zero arrays (Go zero-initialises package-level variables), threads the six
  lists through the two loops and returns them in the order of the variables' names:
  `(Bit, Mask, MaskUpto, RBit, RMask, RMaskUpto)`.  The translator has checked (tools/ssa2lean7/init7.go) that nothing
  else in the program writes these variables and that `initMasks` runs exactly once, from `init()`.

  Proof: the computation is closed and finite (129 iterations), so the equation at `fuel = 66` is evaluated by the
  kernel (`decide +kernel`); `loop*_mono` lift it to every larger `fuel` (a loop that finishes within `gas`
  iterations finishes within more, whatever `fuel` later loops are started with, as long as it is not smaller).
-/
namespace Low
open Low.GoSem Low.GoSem3

/-- the six tables in the order of the generated result: `(Bit, Mask, MaskUpto, RBit, RMask, RMaskUpto)` -/
def maskTables : List Nat × List Nat × List Nat × List Nat × List Nat × List Nat :=
  ((List.range 64).map bit, (List.range 65).map mask, (List.range 64).map maskUpto,
   (List.range 64).map rbit, (List.range 65).map rmask, (List.range 64).map rmaskUpto)

theorem initMasks_loop6_mono (f f' : Nat) : ∀ (gas gas' : Nat) (t : Int) (B M MU RB RM RMU : List Nat)
    (r : List Nat × List Nat × List Nat × List Nat × List Nat × List Nat), gas ≤ gas' →
    Gen.Ssa7.bitmap_initMasks_loop6 f gas t B M MU RB RM RMU = some r →
    Gen.Ssa7.bitmap_initMasks_loop6 f' gas' t B M MU RB RM RMU = some r
  | 0, _, _, _, _, _, _, _, _, _, _, h => by simp [Gen.Ssa7.bitmap_initMasks_loop6] at h
  | gas+1, 0, _, _, _, _, _, _, _, _, hg, _ => by omega
  | gas+1, gas'+1, t, B, M, MU, RB, RM, RMU, r, hg, h => by
    rw [Gen.Ssa7.bitmap_initMasks_loop6] at h ⊢
    simp only at h ⊢
    split
    · rename_i hc
      rw [if_pos hc] at h
      simp only [Option.bind_eq_some_iff] at h ⊢
      obtain ⟨x1, h1, x2, h2, x3, h3, x4, h4, x5, h5, x6, h6, hrec⟩ := h
      exact ⟨x1, h1, x2, h2, x3, h3, x4, h4, x5, h5, x6, h6,
        initMasks_loop6_mono f f' gas gas' _ _ _ _ _ _ _ r (by omega) hrec⟩
    · rename_i hc
      rw [if_neg hc] at h
      exact h

theorem initMasks_loop3_mono (f f' : Nat) (hf : f ≤ f') : ∀ (gas gas' : Nat) (t : Int) (B M MU RB RM RMU : List Nat)
    (r : List Nat × List Nat × List Nat × List Nat × List Nat × List Nat), gas ≤ gas' →
    Gen.Ssa7.bitmap_initMasks_loop3 f gas t B M MU RB RM RMU = some r →
    Gen.Ssa7.bitmap_initMasks_loop3 f' gas' t B M MU RB RM RMU = some r
  | 0, _, _, _, _, _, _, _, _, _, _, h => by simp [Gen.Ssa7.bitmap_initMasks_loop3] at h
  | gas+1, 0, _, _, _, _, _, _, _, _, hg, _ => by omega
  | gas+1, gas'+1, t, B, M, MU, RB, RM, RMU, r, hg, h => by
    rw [Gen.Ssa7.bitmap_initMasks_loop3] at h ⊢
    simp only at h ⊢
    split
    · rename_i hc
      rw [if_pos hc] at h
      simp only [Option.bind_eq_some_iff] at h ⊢
      obtain ⟨x1, h1, x2, h2, x3, h3, hrec⟩ := h
      exact ⟨x1, h1, x2, h2, x3, h3, initMasks_loop3_mono f f' hf gas gas' _ _ _ _ _ _ _ r (by omega) hrec⟩
    · rename_i hc
      rw [if_neg hc] at h
      exact initMasks_loop6_mono f f' f f' _ _ _ _ _ _ _ r hf h

set_option synthInstance.maxSize 2048 in
set_option maxRecDepth 100000 in
theorem initMasks_66 : Gen.Ssa7.bitmap_initMasks 66 = some maskTables := by decide +kernel

/-- `initMasks()` terminates without panic and leaves exactly the tables of the model in the six package-level
    arrays, for every `fuel ≥ 66` (the first loop makes 65 iterations and one more test). -/
theorem Tie_bitmap_initMasks (fuel : Nat) (hfuel : 66 ≤ fuel) : Gen.Ssa7.bitmap_initMasks fuel = some maskTables := by
  have h := initMasks_66
  rw [Gen.Ssa7.bitmap_initMasks] at h ⊢
  exact initMasks_loop3_mono 66 fuel hfuel 66 fuel _ _ _ _ _ _ _ _ hfuel h

private theorem index_map_range (n : Nat) (f : Nat → Nat) (j : Int) :
    index ((List.range n).map f) j = tbl n f j := by
  unfold index tbl
  by_cases h0 : j < 0
  · have : ¬ (0 ≤ j ∧ j < (n : Int)) := by omega
    simp [h0, this]
  · obtain ⟨k, rfl⟩ : ∃ k : Nat, j = (k : Int) := ⟨j.toNat, by omega⟩
    by_cases hk : k < n
    · have : (0 ≤ (k : Int) ∧ (k : Int) < (n : Int)) := by omega
      simp [this, hk]
    · have : ¬ (0 ≤ (k : Int) ∧ (k : Int) < (n : Int)) := by omega
      have hk' : n ≤ k := by omega
      simp [hk']

/-! Reading the table that `initMasks` built, with Go's bounds check, IS the vocabulary function — for every index,
    in range or not.  These six equations are what `GoSem.tblMask … tblRBit` were trusted for. -/
theorem Tie_bitmap_Mask_read (fuel : Nat) (hfuel : 66 ≤ fuel) (j : Int) :
    (Gen.Ssa7.bitmap_initMasks fuel).bind (fun T => index T.2.1 j) = tblMask j := by
  rw [Tie_bitmap_initMasks fuel hfuel]; exact index_map_range 65 mask j
theorem Tie_bitmap_RMask_read (fuel : Nat) (hfuel : 66 ≤ fuel) (j : Int) :
    (Gen.Ssa7.bitmap_initMasks fuel).bind (fun T => index T.2.2.2.2.1 j) = tblRMask j := by
  rw [Tie_bitmap_initMasks fuel hfuel]; exact index_map_range 65 rmask j
theorem Tie_bitmap_MaskUpto_read (fuel : Nat) (hfuel : 66 ≤ fuel) (j : Int) :
    (Gen.Ssa7.bitmap_initMasks fuel).bind (fun T => index T.2.2.1 j) = tblMaskUpto j := by
  rw [Tie_bitmap_initMasks fuel hfuel]; exact index_map_range 64 maskUpto j
theorem Tie_bitmap_RMaskUpto_read (fuel : Nat) (hfuel : 66 ≤ fuel) (j : Int) :
    (Gen.Ssa7.bitmap_initMasks fuel).bind (fun T => index T.2.2.2.2.2 j) = tblRMaskUpto j := by
  rw [Tie_bitmap_initMasks fuel hfuel]; exact index_map_range 64 rmaskUpto j
theorem Tie_bitmap_Bit_read (fuel : Nat) (hfuel : 66 ≤ fuel) (j : Int) :
    (Gen.Ssa7.bitmap_initMasks fuel).bind (fun T => index T.1 j) = tblBit j := by
  rw [Tie_bitmap_initMasks fuel hfuel]; exact index_map_range 64 bit j
theorem Tie_bitmap_RBit_read (fuel : Nat) (hfuel : 66 ≤ fuel) (j : Int) :
    (Gen.Ssa7.bitmap_initMasks fuel).bind (fun T => index T.2.2.2.1 j) = tblRBit j := by
  rw [Tie_bitmap_initMasks fuel hfuel]; exact index_map_range 64 rbit j

-- the bound is tight: with 65 units the first loop cannot make its last test
set_option maxRecDepth 100000 in
example : Gen.Ssa7.bitmap_initMasks 65 = none := by decide +kernel
example : tblMask 64 = some 0xffffffffffffffff := by decide
example : tblMask 65 = none := by decide

end Low
