import Generated.Ssa7.bitmap_selectU64Indexed
import LowProofs.Tie7.bitmap_indexSelectU64
import LowProofs.Lemmas.C02Word
import LowProofs.Tie2.Lemmas
/-
  Tie: the definition regenerated from the SSA form of `bitmap.selectU64Indexed` (unexported, used only by the tests),
  applied to the index that `indexSelectU64` builds for the same word, returns the position of the `i`-th 1-bit.

  The Go function subtracts `(i+1)` from each byte of the index in one 64-bit subtraction (no byte borrows because
  every byte of the index has bit 7 set and `i+1 ≤ 64`); bit 7 of byte `k` of the difference survives iff the
  prefix count of byte `k` is `> i`; `TrailingZeros64 & ^7` is therefore `8*k0` for the first byte `k0` whose prefix
  count exceeds `i`; the rest is a lookup of `select8Lookup` for byte `k0` of `w` with the remaining count.
-/
namespace Low
open Low.GoSem Low.TieL Low.Tie2L Low.Tie7Swar Low.C02L

namespace Tie7Swar

/-- `d & 0x80` on a byte, arithmetically -/
theorem and128 : ∀ d : Fin 256, d.val &&& 128 = d.val / 128 * 128 := by decide +kernel

/-- everything after `t4 = TrailingZeros64(biggerBits)` in the listing, as a function of `t4` -/
def sel64Tail (w index findIth : Nat) (t4 : Int) : Option (Int × Int) :=
  Option.bind (GoSem2.tblSelect8 ((addU64 (shlU64 (andU64 (shrU64 w (toU64 (andI64 t4 (-8)))) 255) 3)
      (subU64 findIth (andU64 (shrU64 index (toU64 (subI64 (andI64 t4 (-8)) 8))) 127)) : Nat) : Int)) fun t16 =>
    some (addI32 (toI32 (t16 : Int)) (toI32 (andI64 t4 (-8))), (0 : Int))

/-- `biggerBits` as a function of the two arguments that matter -/
def sel64Bigger (index findIth : Nat) : Nat :=
  andU64 (subU64 index (mulU64 (addU64 findIth 1) 72340172838076673)) 9259542123273814144

theorem selectU64Indexed_eq (w index findIth : Nat) :
    Gen.Ssa7.bitmap_selectU64Indexed w index findIth
      = sel64Tail w index findIth (trailingZeros64 (sel64Bigger index findIth)) := rfl

/-- `biggerBits` lane by lane, with `c = 127 - i`: byte `k` of the difference is `q k + c`, and `& 0x80` keeps
    `0x80` iff `q k + c ≥ 128` iff `i < q k` (written `/ 128 * 128`) -/
theorem bigger_val (i c q0 q1 q2 q3 q4 q5 q6 q7 : Nat) (hi : i < 64) (hc : c + i = 127)
    (b0 : q0 ≤ 64) (b1 : q1 ≤ 64) (b2 : q2 ≤ 64) (b3 : q3 ≤ 64) (b4 : q4 ≤ 64) (b5 : q5 ≤ 64) (b6 : q6 ≤ 64)
    (b7 : q7 ≤ 64) :
    sel64Bigger (pack [128 + q0, 128 + q1, 128 + q2, 128 + q3, 128 + q4, 128 + q5, 128 + q6, 128 + q7]) i
      = pack [(q0 + c) / 128 * 128, (q1 + c) / 128 * 128, (q2 + c) / 128 * 128, (q3 + c) / 128 * 128,
          (q4 + c) / 128 * 128, (q5 + c) / 128 * 128, (q6 + c) / 128 * 128, (q7 + c) / 128 * 128] := by
  have e1 : mulU64 (addU64 i 1) 72340172838076673 = pack (List.replicate 8 (i + 1)) := by
    simp only [mulU64, addU64, add64, M64, List.replicate, pack]
    omega
  have e2 : subU64 (pack [128 + q0, 128 + q1, 128 + q2, 128 + q3, 128 + q4, 128 + q5, 128 + q6, 128 + q7])
      (pack (List.replicate 8 (i + 1)))
      = pack [q0 + c, q1 + c, q2 + c, q3 + c, q4 + c, q5 + c, q6 + c, q7 + c] := by
    simp only [subU64, sub64, M64, List.replicate, pack]
    omega
  have hbytes : Bytes [q0 + c, q1 + c, q2 + c, q3 + c, q4 + c, q5 + c, q6 + c, q7 + c] := by
    intro a ha
    simp only [List.mem_cons, List.not_mem_nil, or_false] at ha
    rcases ha with rfl | rfl | rfl | rfl | rfl | rfl | rfl | rfl <;> omega
  have e3 := pack_and 128 (by decide) _ hbytes
  simp only [List.length_cons, List.length_nil, Nat.reduceAdd, List.map_cons, List.map_nil] at e3
  have hor : (9259542123273814144 : Nat) = pack (List.replicate 8 128) := by decide
  have a0 := and128 ⟨q0 + c, by omega⟩; have a1 := and128 ⟨q1 + c, by omega⟩
  have a2 := and128 ⟨q2 + c, by omega⟩; have a3 := and128 ⟨q3 + c, by omega⟩
  have a4 := and128 ⟨q4 + c, by omega⟩; have a5 := and128 ⟨q5 + c, by omega⟩
  have a6 := and128 ⟨q6 + c, by omega⟩; have a7 := and128 ⟨q7 + c, by omega⟩
  simp only at a0 a1 a2 a3 a4 a5 a6 a7
  unfold sel64Bigger
  rw [e1, e2, andU64_eq, hor, e3, a0, a1, a2, a3, a4, a5, a6, a7]

theorem flag_eq {c i q : Nat} (hc : c + i = 127) (hq : q ≤ 64) :
    (q + c) / 128 * 128 = if i < q then 128 else 0 := by
  split <;> omega

/-- `biggerBits`: bit 7 of byte `k` is set iff `i < p k`; with `k0` the first such byte the lowest set bit is
    `8*k0 + 7`.  (`p k` stands for the prefix popcount `popc w (8*(k+1))`.) -/
theorem bigger_tz (p : Nat → Nat) (i k0 : Nat) (hk0 : k0 < 8) (hb : ∀ j, j < 8 → p j ≤ 64)
    (hlo : ∀ j, j < k0 → p j ≤ i) (hhi : ∀ j, k0 ≤ j → j < 8 → i < p j) :
    tz (sel64Bigger (pack [128 + p 0, 128 + p 1, 128 + p 2, 128 + p 3, 128 + p 4, 128 + p 5, 128 + p 6, 128 + p 7]) i)
      64 = 8 * k0 + 7 := by
  have b0 := hb 0 (by decide); have b1 := hb 1 (by decide); have b2 := hb 2 (by decide); have b3 := hb 3 (by decide)
  have b4 := hb 4 (by decide); have b5 := hb 5 (by decide); have b6 := hb 6 (by decide); have b7 := hb 7 (by decide)
  have hi : i < 64 := by have := hhi 7 (by omega) (by decide); omega
  have hc : (127 - i) + i = 127 := by omega
  rw [bigger_val i (127 - i) _ _ _ _ _ _ _ _ hi hc b0 b1 b2 b3 b4 b5 b6 b7]
  generalize 127 - i = c at hc ⊢
  simp only [pack]
  rw [flag_eq hc b0, flag_eq hc b1, flag_eq hc b2, flag_eq hc b3, flag_eq hc b4, flag_eq hc b5, flag_eq hc b6,
    flag_eq hc b7]
  have hk : k0 = 0 ∨ k0 = 1 ∨ k0 = 2 ∨ k0 = 3 ∨ k0 = 4 ∨ k0 = 5 ∨ k0 = 6 ∨ k0 = 7 := by omega
  -- in each case the word is a closed term (`pack [0, …, 0, 128, …, 128]`) and `tz` is evaluated
  rcases hk with rfl | rfl | rfl | rfl | rfl | rfl | rfl | rfl
  · rw [if_pos (hhi 0 (by decide) (by decide)), if_pos (hhi 1 (by decide) (by decide)), if_pos (hhi 2 (by decide) (by decide)), if_pos (hhi 3 (by decide) (by decide)),
      if_pos (hhi 4 (by decide) (by decide)), if_pos (hhi 5 (by decide) (by decide)), if_pos (hhi 6 (by decide) (by decide)), if_pos (hhi 7 (by decide) (by decide))]
    decide +kernel
  · rw [if_neg (Nat.not_lt.mpr (hlo 0 (by decide))), if_pos (hhi 1 (by decide) (by decide)), if_pos (hhi 2 (by decide) (by decide)), if_pos (hhi 3 (by decide) (by decide)),
      if_pos (hhi 4 (by decide) (by decide)), if_pos (hhi 5 (by decide) (by decide)), if_pos (hhi 6 (by decide) (by decide)), if_pos (hhi 7 (by decide) (by decide))]
    decide +kernel
  · rw [if_neg (Nat.not_lt.mpr (hlo 0 (by decide))), if_neg (Nat.not_lt.mpr (hlo 1 (by decide))), if_pos (hhi 2 (by decide) (by decide)), if_pos (hhi 3 (by decide) (by decide)),
      if_pos (hhi 4 (by decide) (by decide)), if_pos (hhi 5 (by decide) (by decide)), if_pos (hhi 6 (by decide) (by decide)), if_pos (hhi 7 (by decide) (by decide))]
    decide +kernel
  · rw [if_neg (Nat.not_lt.mpr (hlo 0 (by decide))), if_neg (Nat.not_lt.mpr (hlo 1 (by decide))), if_neg (Nat.not_lt.mpr (hlo 2 (by decide))), if_pos (hhi 3 (by decide) (by decide)),
      if_pos (hhi 4 (by decide) (by decide)), if_pos (hhi 5 (by decide) (by decide)), if_pos (hhi 6 (by decide) (by decide)), if_pos (hhi 7 (by decide) (by decide))]
    decide +kernel
  · rw [if_neg (Nat.not_lt.mpr (hlo 0 (by decide))), if_neg (Nat.not_lt.mpr (hlo 1 (by decide))), if_neg (Nat.not_lt.mpr (hlo 2 (by decide))), if_neg (Nat.not_lt.mpr (hlo 3 (by decide))),
      if_pos (hhi 4 (by decide) (by decide)), if_pos (hhi 5 (by decide) (by decide)), if_pos (hhi 6 (by decide) (by decide)), if_pos (hhi 7 (by decide) (by decide))]
    decide +kernel
  · rw [if_neg (Nat.not_lt.mpr (hlo 0 (by decide))), if_neg (Nat.not_lt.mpr (hlo 1 (by decide))), if_neg (Nat.not_lt.mpr (hlo 2 (by decide))), if_neg (Nat.not_lt.mpr (hlo 3 (by decide))),
      if_neg (Nat.not_lt.mpr (hlo 4 (by decide))), if_pos (hhi 5 (by decide) (by decide)), if_pos (hhi 6 (by decide) (by decide)), if_pos (hhi 7 (by decide) (by decide))]
    decide +kernel
  · rw [if_neg (Nat.not_lt.mpr (hlo 0 (by decide))), if_neg (Nat.not_lt.mpr (hlo 1 (by decide))), if_neg (Nat.not_lt.mpr (hlo 2 (by decide))), if_neg (Nat.not_lt.mpr (hlo 3 (by decide))),
      if_neg (Nat.not_lt.mpr (hlo 4 (by decide))), if_neg (Nat.not_lt.mpr (hlo 5 (by decide))), if_pos (hhi 6 (by decide) (by decide)), if_pos (hhi 7 (by decide) (by decide))]
    decide +kernel
  · rw [if_neg (Nat.not_lt.mpr (hlo 0 (by decide))), if_neg (Nat.not_lt.mpr (hlo 1 (by decide))), if_neg (Nat.not_lt.mpr (hlo 2 (by decide))), if_neg (Nat.not_lt.mpr (hlo 3 (by decide))),
      if_neg (Nat.not_lt.mpr (hlo 4 (by decide))), if_neg (Nat.not_lt.mpr (hlo 5 (by decide))), if_neg (Nat.not_lt.mpr (hlo 6 (by decide))), if_pos (hhi 7 (by decide) (by decide))]
    decide +kernel

theorem andI64_neg8 {k0 : Nat} (hk0 : k0 < 8) : andI64 ((8 * k0 + 7 : Nat) : Int) (-8) = ((8 * k0 : Nat) : Int) := by
  have hk : k0 = 0 ∨ k0 = 1 ∨ k0 = 2 ∨ k0 = 3 ∨ k0 = 4 ∨ k0 = 5 ∨ k0 = 6 ∨ k0 = 7 := by omega
  rcases hk with rfl | rfl | rfl | rfl | rfl | rfl | rfl | rfl <;> decide

/-- `(index >> uint(ithU8-8)) & 0x7f` is the prefix count before byte `k0`; for `k0 = 0` the shift count
    `uint(-8)` is `2^64 - 8 ≥ 64` and Go's shift gives 0 -/
theorem prev_count (w k0 : Nat) (hk0 : k0 < 8) :
    andU64 (shrU64 (indexSelectU64 w) (toU64 (subI64 ((8 * k0 : Nat) : Int) 8))) 127 = popc w (8 * k0) := by
  cases k0 with
  | zero =>
    have e : toU64 (subI64 ((8 * 0 : Nat) : Int) 8) = 18446744073709551608 := by decide
    rw [e, shrU64_eq, shr64, if_neg (by decide), andU64_eq]
    rfl
  | succ k =>
    have e1 : subI64 ((8 * (k + 1) : Nat) : Int) ((8 : Nat) : Int) = ((8 * (k + 1) - 8 : Nat) : Int) :=
      subI64_ofNat (by omega) (by omega)
    have e2 : 8 * (k + 1) - 8 = 8 * k := by omega
    have hb := indexSelectU64_byte w k (by omega)
    have hp : popc w (8 * (k + 1)) ≤ 64 := Nat.le_trans (popc_le w _) (by omega)
    rw [or128' (by omega)] at hb
    have e3 : (127 : Nat) = 2 ^ 7 - 1 := rfl
    rw [show ((8 : Int)) = ((8 : Nat) : Int) from rfl, e1, e2, toU64_ofNat_lt (by omega), shrU64_lt _ (by omega),
      andU64_eq, e3, Nat.and_two_pow_sub_one_eq_mod]
    simp only [Nat.reducePow]
    omega

/-- the code after `TrailingZeros64`, for the byte `k0` that contains the `i`-th 1-bit -/
theorem sel64Tail_spec (w i k0 : Nat) (hk0 : k0 < 8) (hlo : popc w (8 * k0) ≤ i)
    (hhi : i < popc w (8 * (k0 + 1))) :
    ∃ r, sel64Tail w (indexSelectU64 w) i ((8 * k0 + 7 : Nat) : Int) = some (((8 * k0 + r : Nat) : Int), 0) ∧
      IsSel w i (8 * k0 + r) ∧ r < 8 := by
  have hi : i < 64 := by
    have := popc_le w (8 * (k0 + 1))
    omega
  have hsplit := popc_succ_byte w k0
  have hbl := byteOf_lt w k0
  obtain ⟨r, hr, hs, hr8⟩ := table_spec (b := byteOf w k0) (k := i - popc w (8 * k0)) hbl (by omega)
  refine ⟨r, ?_, ?_, hr8⟩
  · have e255 : (255 : Nat) = 2 ^ 8 - 1 := rfl
    have eb : andU64 (shrU64 w (8 * k0)) 255 = byteOf w k0 := by
      rw [shrU64_lt _ (by omega), andU64_eq, e255, Nat.and_two_pow_sub_one_eq_mod]
      rfl
    have es : shlU64 (byteOf w k0) 3 = byteOf w k0 * 8 := by
      rw [shlU64_eq, shl64, if_pos (by decide), Nat.shiftLeft_eq]
      apply Nat.mod_eq_of_lt
      simp only [M64, Nat.reducePow]
      omega
    have ea : addU64 (byteOf w k0 * 8) (i - popc w (8 * k0)) = byteOf w k0 * 8 + (i - popc w (8 * k0)) :=
      add64_of_lt (by simp only [M64]; omega)
    unfold sel64Tail
    rw [andI64_neg8 hk0, prev_count w k0 hk0, toU64_ofNat_lt (by omega), eb, es, subU64,
      sub64_of_le hlo (by simp only [M64]; omega), ea, tblSelect8_ofNat, hr]
    have hlt1 : r < 2147483648 := by omega
    have hlt2 : 8 * k0 < 2147483648 := by omega
    have hlt3 : r + 8 * k0 < 2147483648 := by omega
    have e3 : toI32 (r : Int) = r := toI32_ofNat_lt hlt1
    have e4 : toI32 ((8 * k0 : Nat) : Int) = ((8 * k0 : Nat) : Int) := toI32_ofNat_lt hlt2
    have e5 : addI32 (r : Int) ((8 * k0 : Nat) : Int) = ((r + 8 * k0 : Nat) : Int) := addI32_ofNat hlt3
    show some (addI32 (toI32 (r : Int)) (toI32 ((8 * k0 : Nat) : Int)), (0 : Int)) = _
    rw [e3, e4, e5, Nat.add_comm r]
  · refine isSel_high hlo (isSel_congr (n := 8) (fun j hj => ?_) hr8 hs)
    have e2 : (256 : Nat) = 2 ^ 8 := by decide
    rw [byteOf, e2, Nat.testBit_mod_two_pow]
    simp [hj]

/-- the byte that contains the `i`-th 1-bit -/
theorem find_byte (w i : Nat) (hi : i < popc w 64) :
    ∃ k0, k0 < 8 ∧ popc w (8 * k0) ≤ i ∧ i < popc w (8 * (k0 + 1)) := by
  by_cases h0 : i < popc w 8
  · exact ⟨0, by decide, Nat.zero_le _, h0⟩
  by_cases h1 : i < popc w 16
  · exact ⟨1, by decide, (by omega : popc w 8 ≤ i), h1⟩
  by_cases h2 : i < popc w 24
  · exact ⟨2, by decide, (by omega : popc w 16 ≤ i), h2⟩
  by_cases h3 : i < popc w 32
  · exact ⟨3, by decide, (by omega : popc w 24 ≤ i), h3⟩
  by_cases h4 : i < popc w 40
  · exact ⟨4, by decide, (by omega : popc w 32 ≤ i), h4⟩
  by_cases h5 : i < popc w 48
  · exact ⟨5, by decide, (by omega : popc w 40 ≤ i), h5⟩
  by_cases h6 : i < popc w 56
  · exact ⟨6, by decide, (by omega : popc w 48 ≤ i), h6⟩
  · exact ⟨7, by decide, (by omega : popc w 56 ≤ i), hi⟩

theorem indexSelectU64_eq (w : Nat) :
    indexSelectU64 w = pack [128 + popc w 8, 128 + popc w 16, 128 + popc w 24, 128 + popc w 32, 128 + popc w 40,
      128 + popc w 48, 128 + popc w 56, 128 + popc w 64] := by
  have hle : ∀ n, n ≤ 64 → popc w n < 128 := fun n hn => Nat.lt_of_le_of_lt (popc_le w n) (by omega)
  rw [indexSelectU64, or128' (hle 8 (by decide)), or128' (hle 16 (by decide)), or128' (hle 24 (by decide)),
    or128' (hle 32 (by decide)), or128' (hle 40 (by decide)), or128' (hle 48 (by decide)),
    or128' (hle 56 (by decide)), or128' (hle 64 (by decide))]

theorem isSel_unique {w k r r' : Nat} (h : IsSel w k r) (h' : IsSel w k r') : r = r' := by
  have key : ∀ {a b : Nat}, IsSel w k a → IsSel w k b → ¬ a < b := by
    intro a b ha hb hlt
    have h1 := popc_mono w (show a + 1 ≤ b from hlt)
    have h2 : popc w (a + 1) = popc w a + 1 := by simp [popc, ha.1]
    rw [hb.2, h2, ha.2] at h1
    omega
  have := key h h'
  have := key h' h
  omega

end Tie7Swar

open Tie7Swar

/-- Domain: every uint64 `w`, the index built by `indexSelectU64` for the same word, and `i` below the number of
    1-bits of `w` (so `i ≤ 63`).  The result is `(p, 0)` where `p` is the position of the `i`-th (from 0) 1-bit:
    `w.testBit p` and exactly `i` 1-bits below `p` (`C02L.IsSel w i p`).  No panic: the table index is `< 2048`.
    (`w < 2^64` is the representation invariant of the `uint64` argument; the proof does not use it, because the
    model index is defined from `popc w _` and the code only looks at `w >> 8k & 0xff` for `k < 8`.) -/
theorem Tie_bitmap_selectU64Indexed (w i : Nat) (_hw : w < 2 ^ 64) (hi : i < popc w 64) :
    ∃ p : Nat, Gen.Ssa7.bitmap_selectU64Indexed w (indexSelectU64 w) i = some ((p : Int), 0) ∧
      p < 64 ∧ w.testBit p = true ∧ popc w p = i := by
  obtain ⟨k0, hk0, hlo, hhi⟩ := find_byte w i hi
  obtain ⟨r, hr, hs, hr8⟩ := sel64Tail_spec w i k0 hk0 hlo hhi
  have htz : trailingZeros64 (sel64Bigger (indexSelectU64 w) i) = ((8 * k0 + 7 : Nat) : Int) := by
    have h : tz (sel64Bigger (pack [128 + popc w 8, 128 + popc w 16, 128 + popc w 24, 128 + popc w 32,
        128 + popc w 40, 128 + popc w 48, 128 + popc w 56, 128 + popc w 64]) i) 64 = 8 * k0 + 7 :=
      bigger_tz (fun k => popc w (8 * (k + 1))) i k0 hk0
        (fun j hj => Nat.le_trans (popc_le w _) (by omega))
        (fun j hj => Nat.le_trans (popc_mono w (by omega)) hlo)
        (fun j hj _ => Nat.lt_of_lt_of_le hhi (popc_mono w (by omega)))
    rw [trailingZeros64, indexSelectU64_eq, h]
  refine ⟨8 * k0 + r, ?_, by omega, hs.1, hs.2⟩
  rw [selectU64Indexed_eq, htz, hr]

/-- the same result as the in-word search `selWord` of the exported `Select32` / `Select32R64` -/
theorem Tie_bitmap_selectU64Indexed_selWord (w i : Nat) (hw : w < 2 ^ 64) (hi : i < popc w 64) :
    Gen.Ssa7.bitmap_selectU64Indexed w (indexSelectU64 w) i = (selWord w i).map fun p => ((p : Int), (0 : Int)) := by
  obtain ⟨p, hp, _, h1, h2⟩ := Tie_bitmap_selectU64Indexed w i hw hi
  obtain ⟨r, hr, hs, _⟩ := selWord_spec hi
  rw [hp, hr, isSel_unique hs ⟨h1, h2⟩]
  rfl

/-- against the specification `ones` of package bitmap, for the one-word bitmap `[w]`: the result is entry `i` of the
    ascending list of 1-bit positions -/
theorem Tie_bitmap_selectU64Indexed_ones (w i : Nat) (hw : w < 2 ^ 64) (hi : i < popc w 64) :
    ∃ p : Nat, Gen.Ssa7.bitmap_selectU64Indexed w (indexSelectU64 w) i = some ((p : Int), 0) ∧
      (ones [w])[i]? = some p := by
  obtain ⟨p, hp, hlt, h1, h2⟩ := Tie_bitmap_selectU64Indexed w i hw hi
  refine ⟨p, hp, ?_⟩
  have hb : bitAt [w] p = true := by
    have := bitAt_word (ws := [w]) (k := 0) (j := p) (w := w) rfl hlt
    simp only [Nat.mul_zero, Nat.zero_add] at this
    rw [this, h1]
  have hr : rank [w] p = i := by
    have := rank_word (ws := [w]) (k := 0) (w := w) rfl p (by omega)
    simp only [Nat.mul_zero, Nat.zero_add, rank] at this
    rw [this, h2]
  have := ones_rank hb
  rw [hr] at this
  exact this

example : Gen.Ssa7.bitmap_selectU64Indexed 0x8000000000000101 (indexSelectU64 0x8000000000000101) 2 = some (63, 0) := by
  decide +kernel
example : (0x8000000000000101 : Nat) < 2 ^ 64 ∧ 2 < popc 0x8000000000000101 64 := by decide +kernel
example : Gen.Ssa7.bitmap_selectU64Indexed 0x12 (indexSelectU64 0x12) 1 = some (4, 0) := by decide +kernel

/-! ### outside the domain: `i ≥ OnesCount64(w)`

  The Go source has the two guards commented out (`findIth > 63` and `ithU8 == 64`).  For `popc w 64 ≤ i < 127`
  no byte of the difference keeps its bit 7, `biggerBits = 0`, `TrailingZeros64 = 64`, `ithU8 = 64`, `w >> 64 = 0`,
  the count subtracted is the total `popc w 64`, and the lookup is `select8Lookup[i - popc w 64]`: while
  `i - popc w 64 < 8` this is row 0 of the table (all entries 8) and the result is `(72, 0)` — not a position, and
  not the `64` of the commented-out branch; beyond that the lookup reads rows of other bytes (e.g. `(65, 0)` for `w = 0`, `i = 16` below), and a
  large enough `findIth` indexes past the 2048 entries: a panic. -/
example : Gen.Ssa7.bitmap_selectU64Indexed 0x12 (indexSelectU64 0x12) 2 = some (72, 0) := by decide +kernel
example : Gen.Ssa7.bitmap_selectU64Indexed 0 (indexSelectU64 0) 0 = some (72, 0) := by decide +kernel
example : Gen.Ssa7.bitmap_selectU64Indexed 0 (indexSelectU64 0) 16 = some (65, 0) := by decide +kernel
example : Gen.Ssa7.bitmap_selectU64Indexed 0 (indexSelectU64 0) 3000 = none := by decide +kernel

example := Tie_bitmap_selectU64Indexed 0x8000000000000101 2 (by decide) (by decide +kernel)

end Low
