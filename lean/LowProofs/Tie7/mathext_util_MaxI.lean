import Generated.Ssa7.mathext_util_MaxI
import LowProofs.Tie7.mathext_util_L
/- Tie of `mathext/util.MaxI` (regenerated definition = specification); see `mathext_util_L.lean`. -/
namespace Low

/-- `MaxI(a, b)` (`int`) is the larger of its arguments, for ALL values (the generated definition
    only compares its arguments; a comparison of in-range representatives is the Go comparison of the type). -/
theorem Tie_mathext_util_MaxI (a b : Int) : Gen.Ssa7.mathext_util_MaxI a b = max a b := by
  unfold Gen.Ssa7.mathext_util_MaxI
  simp only [decide_eq_true_eq]
  split <;> omega

/-- arguments that are `int` values give a `int` value -/
theorem Tie_mathext_util_MaxI_range (a b : Int) (ha : Util.InS 64 a) (hb : Util.InS 64 b) :
    Util.InS 64 (Gen.Ssa7.mathext_util_MaxI a b) := by
  rw [Tie_mathext_util_MaxI]; exact Util.InS_max ha hb

example : Gen.Ssa7.mathext_util_MaxI (-3) 2 = 2 := by decide

end Low
