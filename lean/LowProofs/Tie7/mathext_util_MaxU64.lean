import Generated.Ssa7.mathext_util_MaxU64
import LowProofs.Tie7.mathext_util_L
/- Tie of `mathext/util.MaxU64` (regenerated definition = specification); see `mathext_util_L.lean`. -/
namespace Low

/-- `MaxU64(a, b)` (`uint64`) is the larger of its arguments, for ALL values (the generated definition
    only compares its arguments; a comparison of in-range representatives is the Go comparison of the type). -/
theorem Tie_mathext_util_MaxU64 (a b : Nat) : Gen.Ssa7.mathext_util_MaxU64 a b = max a b := by
  unfold Gen.Ssa7.mathext_util_MaxU64
  simp only [decide_eq_true_eq]
  split <;> omega

/-- arguments that are `uint64` values give a `uint64` value -/
theorem Tie_mathext_util_MaxU64_range (a b : Nat) (ha : Util.InU 64 a) (hb : Util.InU 64 b) :
    Util.InU 64 (Gen.Ssa7.mathext_util_MaxU64 a b) := by
  rw [Tie_mathext_util_MaxU64]; exact Util.InU_max ha hb

example : Gen.Ssa7.mathext_util_MaxU64 3 2 = 3 := by decide

end Low
