import Generated.Ssa7.bitmap_initSelectLookup
import LowModel.GoSem2
import LowProofs.Tie3.Lemmas
/-
  Tie: the definition generated from the SSA form of `bitmap.initSelectLookup` (two nested counting loops that fill
  the package-level array `select8Lookup`, threaded through the code as a functional list that starts as 2048 zeros)
  computes exactly the model table `Low.select8Table`.

  The proof is symbolic (the kernel cannot evaluate the 2048 stores at fuel 257 in reasonable time):
    * `loop6_spec`: an instance of the inner loop started at column `j` of row `i` with byte `w` overwrites
      positions `8*i+j … 8*i+7` with `sel8Row (8-j) w` and passes the buffer to the continuation with `i+1`;
    * `loop3_spec`: the outer loop started at row `i` keeps `buf.take (8*i)` and overwrites the rest with the
      model rows `i … 255`.
-/
namespace Low
open Low.GoSem Low.GoSem3 Low.TieL Low.Tie2L Low.Tie3L

namespace Tie7L

theorem sel8Row_length : ∀ (n w : Nat), (sel8Row n w).length = n
  | 0, _ => rfl
  | n+1, w => by rw [sel8Row, List.length_cons, sel8Row_length n]

theorem trailingZeros8_eq (w : Nat) : trailingZeros8 w = ((tz w 8 : Nat) : Int) := by rw [trailingZeros8]

theorem toU8_ofNat_lt {n : Nat} (h : n < 256) : toU8 (n : Int) = n := by
  rw [toU8]
  have : (n : Int) % ((M8 : Nat) : Int) = (n : Int) := by
    show (n : Int) % ((256 : Nat) : Int) = (n : Int)
    omega
  rw [this]; rfl

theorem toU8_tz8 (w : Nat) : toU8 (trailingZeros8 w) = tz w 8 := by
  rw [trailingZeros8_eq]
  exact toU8_ofNat_lt (by have := tz_le 8 w; omega)

theorem subU8_one {w : Nat} (h0 : 0 < w) (h : w < 256) : subU8 w 1 = w - 1 := by
  rw [subU8]
  show (w + (256 - 1 % 256)) % 256 = w - 1
  omega

theorem and_pred_lt {w : Nat} (h : w < 256) : w &&& (w - 1) < 256 :=
  Nat.lt_of_le_of_lt Nat.and_le_left h

theorem andU8_subU8_one {w : Nat} (h : w < 256) : andU8 w (subU8 w 1) = w &&& (w - 1) := by
  rw [andU8]
  rcases Nat.eq_zero_or_pos w with h0 | h0
  · subst h0; simp
  · rw [subU8_one h0 h]

theorem mulI64_8_ofNat {i : Nat} (h : i < 256) : mulI64 (i : Int) 8 = ((i * 8 : Nat) : Int) := by
  rw [mulI64]
  exact (wrap64_id (by omega) (by omega)).trans (by omega)

/-- the inner loop: `k` columns remain (`j + k = 8`) -/
theorem loop6_spec (fuel i : Nat) (hi : i < 256) (blk3 : Int → List Nat → Option (List Nat)) :
    ∀ (k gas w j : Nat) (buf : List Nat), j + k = 8 → k + 1 ≤ gas → w < 256 → buf.length = 2048 →
      Gen.Ssa7.bitmap_initSelectLookup_loop6 fuel (i : Int) blk3 gas w (j : Int) buf
        = blk3 ((i + 1 : Nat) : Int) (buf.take (8 * i + j) ++ (sel8Row k w ++ buf.drop (8 * i + 8)))
  | 0, gas, w, j, buf, hj, hg, hw, hb => by
    obtain ⟨g, rfl⟩ : ∃ g, gas = g + 1 := ⟨gas - 1, by omega⟩
    have hj8 : j = 8 := by omega
    subst hj8
    have hc : ¬ (((8 : Nat) : Int) < (8 : Int)) := by omega
    have e1 : addI64 (i : Int) 1 = ((i + 1 : Nat) : Int) := addI64_one_ofNat (by omega)
    rw [Gen.Ssa7.bitmap_initSelectLookup_loop6]
    simp only [hc, decide_false, Bool.false_eq_true, ↓reduceIte, e1, sel8Row, List.nil_append,
      List.take_append_drop]
  | k+1, gas, w, j, buf, hj, hg, hw, hb => by
    obtain ⟨g, rfl⟩ : ∃ g, gas = g + 1 := ⟨gas - 1, by omega⟩
    have hc : ((j : Nat) : Int) < (8 : Int) := by omega
    have hlt : i * 8 + j < buf.length := by omega
    have e6 : mulI64 (i : Int) 8 = ((i * 8 : Nat) : Int) := mulI64_8_ofNat hi
    have e7 : addI64 ((i * 8 : Nat) : Int) (j : Int) = ((i * 8 + j : Nat) : Int) := addI64_ofNat (by omega)
    have e10 : addI64 (j : Int) 1 = ((j + 1 : Nat) : Int) := addI64_one_ofNat (by omega)
    have ih := loop6_spec fuel i hi blk3 k g (w &&& (w - 1)) (j + 1) (buf.set (i * 8 + j) (tz w 8))
      (by omega) (by omega) (and_pred_lt hw) (by simpa using hb)
    rw [Gen.Ssa7.bitmap_initSelectLookup_loop6]
    simp only [hc, decide_true, ↓reduceIte, e6, e7, e10, toU8_tz8, andU8_subU8_one hw,
      setIdx_ofNat buf (tz w 8) hlt, Option.bind_some, ih]
    have a1 : 8 * i + (j + 1) = (i * 8 + j) + 1 := by omega
    have a2 : 8 * i + j = i * 8 + j := by omega
    have a3 : 8 * i + 8 = (i * 8 + j) + 1 + (7 - j) := by omega
    rw [a1, take_set_succ buf (i * 8 + j) (tz w 8) hlt, a2, a3, ← List.drop_drop, drop_set_succ, sel8Row]
    simp only [List.append_assoc, List.cons_append, List.nil_append, List.drop_drop]

/-- the outer loop: `k` rows remain (`i + k = 256`) -/
theorem loop3_spec (fuel : Nat) (hfuel : 9 ≤ fuel) :
    ∀ (k gas i : Nat) (buf : List Nat), i + k = 256 → k + 1 ≤ gas → buf.length = 2048 →
      Gen.Ssa7.bitmap_initSelectLookup_loop3 fuel gas (i : Int) buf
        = some (buf.take (8 * i) ++ (List.range' i k).flatMap (sel8Row 8))
  | 0, gas, i, buf, hi, hg, hb => by
    obtain ⟨g, rfl⟩ : ∃ g, gas = g + 1 := ⟨gas - 1, by omega⟩
    have hi' : i = 256 := by omega
    subst hi'
    have hc : ¬ (((256 : Nat) : Int) < (256 : Int)) := by omega
    rw [Gen.Ssa7.bitmap_initSelectLookup_loop3]
    simp only [hc, decide_false, Bool.false_eq_true, ↓reduceIte, List.range'_zero, List.flatMap_nil,
      List.append_nil]
    rw [List.take_of_length_le (by omega)]
  | k+1, gas, i, buf, hi, hg, hb => by
    obtain ⟨g, rfl⟩ : ∃ g, gas = g + 1 := ⟨gas - 1, by omega⟩
    have hi' : i < 256 := by omega
    have hc : ((i : Nat) : Int) < (256 : Int) := by omega
    have h6 := loop6_spec fuel i hi' (Gen.Ssa7.bitmap_initSelectLookup_loop3 fuel g) 8 fuel i 0 buf
      (by omega) (by omega) hi' hb
    have hlen : (buf.take (8 * i + 0) ++ (sel8Row 8 i ++ buf.drop (8 * i + 8))).length = 2048 := by
      simp only [List.length_append, List.length_take, List.length_drop, sel8Row_length, hb]; omega
    have ih := loop3_spec fuel hfuel k g (i + 1) _ (by omega) (by omega) hlen
    have ht : (buf.take (8 * i + 0) ++ (sel8Row 8 i ++ buf.drop (8 * i + 8))).take (8 * (i + 1))
        = buf.take (8 * i) ++ sel8Row 8 i := by
      rw [← List.append_assoc, List.take_append_of_le_length (by
        simp only [List.length_append, List.length_take, sel8Row_length, hb]; omega)]
      rw [List.take_of_length_le (by
        simp only [List.length_append, List.length_take, sel8Row_length, hb]; omega)]
      rfl
    rw [Gen.Ssa7.bitmap_initSelectLookup_loop3]
    simp only [hc, decide_true, ↓reduceIte, toU8_ofNat_lt hi']
    rw [show ((0 : Int)) = ((0 : Nat) : Int) from rfl, h6, ih, ht, List.range'_succ, List.flatMap_cons,
      List.append_assoc]

end Tie7L

open Tie7L

/-- `bitmap.initSelectLookup` (generated from SSA) builds exactly the model table, for every fuel ≥ 257
    (256 outer iterations + the exit test; every inner loop instance needs 9 ≤ fuel). -/
theorem Tie_bitmap_initSelectLookup (fuel : Nat) (hfuel : 257 ≤ fuel) :
    Gen.Ssa7.bitmap_initSelectLookup fuel = some select8Table.toList := by
  rw [Gen.Ssa7.bitmap_initSelectLookup]
  have h := loop3_spec fuel (by omega) 256 fuel 0 (newArray (0 : Nat) 2048) (by omega) (by omega)
    (newArray_length 0 2048)
  show Gen.Ssa7.bitmap_initSelectLookup_loop3 fuel fuel ((0 : Nat) : Int) (newArray (0 : Nat) 2048) = _
  rw [h, select8Table, List.toList_toArray, List.range_eq_range']
  rfl

/-- reading the generated table with Go's bounds-checked indexing = the vocabulary function `tblSelect8`,
    for EVERY index (negative and too large ones included: both sides are `none`) -/
theorem Tie_bitmap_select8Lookup_read (fuel : Nat) (hfuel : 257 ≤ fuel) (j : Int) :
    (Gen.Ssa7.bitmap_initSelectLookup fuel).bind (fun T => GoSem.index T j) = GoSem2.tblSelect8 j := by
  rw [Tie_bitmap_initSelectLookup fuel hfuel, Option.bind_some, GoSem.index, GoSem2.tblSelect8,
    Array.getElem?_toList]

-- out of fuel
example : Gen.Ssa7.bitmap_initSelectLookup 8 = none := by decide +kernel
-- the model rows the generated loop reproduces
example : sel8Row 8 0b10010110 = [1, 2, 4, 7, 8, 8, 8, 8] := by decide
example : GoSem2.tblSelect8 (0b10010110 * 8 + 2) = some 4 := by decide +kernel
example : (Gen.Ssa7.bitmap_initSelectLookup 300).bind (fun T => GoSem.index T (0b10010110 * 8 + 2)) = some 4 := by
  rw [Tie_bitmap_select8Lookup_read 300 (by omega)]; decide +kernel
example : (Gen.Ssa7.bitmap_initSelectLookup 257).bind (fun T => GoSem.index T 2048) = none := by
  rw [Tie_bitmap_select8Lookup_read 257 (by omega)]; decide +kernel
example : (Gen.Ssa7.bitmap_initSelectLookup 257).bind (fun T => GoSem.index T (-1)) = none := by
  rw [Tie_bitmap_select8Lookup_read 257 (by omega)]; decide +kernel

end Low
