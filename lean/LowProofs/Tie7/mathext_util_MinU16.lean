import Generated.Ssa7.mathext_util_MinU16
import LowProofs.Tie7.mathext_util_L
/- Tie of `mathext/util.MinU16` (regenerated definition = specification); see `mathext_util_L.lean`. -/
namespace Low

/-- `MinU16(a, b)` (`uint16`) is the smaller of its arguments, for ALL values (the generated definition
    only compares its arguments; a comparison of in-range representatives is the Go comparison of the type). -/
theorem Tie_mathext_util_MinU16 (a b : Nat) : Gen.Ssa7.mathext_util_MinU16 a b = min a b := by
  unfold Gen.Ssa7.mathext_util_MinU16
  simp only [decide_eq_true_eq]
  split <;> omega

/-- arguments that are `uint16` values give a `uint16` value -/
theorem Tie_mathext_util_MinU16_range (a b : Nat) (ha : Util.InU 16 a) (hb : Util.InU 16 b) :
    Util.InU 16 (Gen.Ssa7.mathext_util_MinU16 a b) := by
  rw [Tie_mathext_util_MinU16]; exact Util.InU_min ha hb

example : Gen.Ssa7.mathext_util_MinU16 3 2 = 2 := by decide

end Low
