import Generated.Ssa7.sigbits_New
import LowModel.Sigbits
import LowProofs.Tie3.sigbits_FirstDiffBits
/-
  Tie: the definition regenerated from the SSA form of the constructor `sigbits.New`
  (`&SigBits{keys: keys, sigbits: FirstDiffBits(keys)}`) returns the tuple `(keys, sigbits)` of the fields of the new
  struct: the keys as given and the model's `firstDiffBits keys` — the struct invariant that
  `Tie_sigbits_SigBits_CountPrefixes` assumes of its receiver (`firstDiffBits keys = some sig`).
-/
namespace Low

/-- Domain and fuel: those of `Tie_sigbits_FirstDiffBits` (keys of bytes, each shorter than `2^28`, fewer than `2^63`
    keys; `fuel ≥ len(keys)` and `≥ len(k)/8 + 2` for every key).  For `keys = []` the constructor panics
    (`make([]int32, -1)` in `FirstDiffBits`): both sides are `none`. -/
theorem Tie_sigbits_New (keys : List (List Nat)) (fuel : Nat) (hbytes : ∀ k ∈ keys, ∀ x ∈ k, x < 256)
    (hlen : ∀ k ∈ keys, k.length < 2^28) (hn : keys.length < 2^63) (hfuel1 : keys.length ≤ fuel)
    (hfuel2 : ∀ k ∈ keys, k.length / 8 + 2 ≤ fuel) :
    Gen.Ssa7.sigbits_New fuel keys = (firstDiffBits keys).map (fun sig => (keys, sig.map Int.ofNat)) := by
  rw [Gen.Ssa7.sigbits_New, Tie_sigbits_FirstDiffBits keys fuel hbytes hlen hn hfuel1 hfuel2]
  cases firstDiffBits keys <;> rfl

example : Gen.Ssa7.sigbits_New 3 [[0x61, 0x62], [0x61, 0x63], [0x62]] = some ([[0x61, 0x62], [0x61, 0x63], [0x62]], [15, 6]) := by
  decide +kernel
example : Gen.Ssa7.sigbits_New 3 [] = none := by decide +kernel

end Low
