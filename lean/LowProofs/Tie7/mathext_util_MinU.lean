import Generated.Ssa7.mathext_util_MinU
import LowProofs.Tie7.mathext_util_L
/- Tie of `mathext/util.MinU` (regenerated definition = specification); see `mathext_util_L.lean`. -/
namespace Low

/-- `MinU(a, b)` (`uint`) is the smaller of its arguments, for ALL values (the generated definition
    only compares its arguments; a comparison of in-range representatives is the Go comparison of the type). -/
theorem Tie_mathext_util_MinU (a b : Nat) : Gen.Ssa7.mathext_util_MinU a b = min a b := by
  unfold Gen.Ssa7.mathext_util_MinU
  simp only [decide_eq_true_eq]
  split <;> omega

/-- arguments that are `uint` values give a `uint` value -/
theorem Tie_mathext_util_MinU_range (a b : Nat) (ha : Util.InU 64 a) (hb : Util.InU 64 b) :
    Util.InU 64 (Gen.Ssa7.mathext_util_MinU a b) := by
  rw [Tie_mathext_util_MinU]; exact Util.InU_min ha hb

example : Gen.Ssa7.mathext_util_MinU 3 2 = 2 := by decide

end Low
