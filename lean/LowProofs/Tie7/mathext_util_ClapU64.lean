import Generated.Ssa7.mathext_util_ClapU64
import LowProofs.Tie7.mathext_util_L
/- Tie of `mathext/util.ClapU64` (regenerated definition = specification); see `mathext_util_L.lean`. -/
namespace Low

/-- `ClapU64(n, min, max)` (`uint64`) is the clamp of `n` into `[min, max]`, for ALL values (the generated definition only
    compares its arguments).  When `min > max` the result is `max` (`Util.clampU_gt`; the source documents nothing). -/
theorem Tie_mathext_util_ClapU64 (n lo hi : Nat) : Gen.Ssa7.mathext_util_ClapU64 n lo hi = Util.clampU n lo hi := by
  unfold Gen.Ssa7.mathext_util_ClapU64 Util.clampU
  simp only [decide_eq_true_eq]
  split <;> split <;> omega

/-- arguments that are `uint64` values give a `uint64` value -/
theorem Tie_mathext_util_ClapU64_range (n lo hi : Nat) (hn : Util.InU 64 n) (hl : Util.InU 64 lo) (hh : Util.InU 64 hi) :
    Util.InU 64 (Gen.Ssa7.mathext_util_ClapU64 n lo hi) := by
  rw [Tie_mathext_util_ClapU64]; exact Util.InU_clamp hn hl hh

example : Gen.Ssa7.mathext_util_ClapU64 9 1 5 = 5 := by decide
-- bounds the wrong way round: the upper bound wins
example : Gen.Ssa7.mathext_util_ClapU64 0 5 1 = 1 := by decide

end Low
