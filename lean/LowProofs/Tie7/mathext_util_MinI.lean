import Generated.Ssa7.mathext_util_MinI
import LowProofs.Tie7.mathext_util_L
/- Tie of `mathext/util.MinI` (regenerated definition = specification); see `mathext_util_L.lean`. -/
namespace Low

/-- `MinI(a, b)` (`int`) is the smaller of its arguments, for ALL values (the generated definition
    only compares its arguments; a comparison of in-range representatives is the Go comparison of the type). -/
theorem Tie_mathext_util_MinI (a b : Int) : Gen.Ssa7.mathext_util_MinI a b = min a b := by
  unfold Gen.Ssa7.mathext_util_MinI
  simp only [decide_eq_true_eq]
  split <;> omega

/-- arguments that are `int` values give a `int` value -/
theorem Tie_mathext_util_MinI_range (a b : Int) (ha : Util.InS 64 a) (hb : Util.InS 64 b) :
    Util.InS 64 (Gen.Ssa7.mathext_util_MinI a b) := by
  rw [Tie_mathext_util_MinI]; exact Util.InS_min ha hb

example : Gen.Ssa7.mathext_util_MinI (-3) 2 = (-3) := by decide

end Low
