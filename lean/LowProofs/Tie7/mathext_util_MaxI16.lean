import Generated.Ssa7.mathext_util_MaxI16
import LowProofs.Tie7.mathext_util_L
/- Tie of `mathext/util.MaxI16` (regenerated definition = specification); see `mathext_util_L.lean`. -/
namespace Low

/-- `MaxI16(a, b)` (`int16`) is the larger of its arguments, for ALL values (the generated definition
    only compares its arguments; a comparison of in-range representatives is the Go comparison of the type). -/
theorem Tie_mathext_util_MaxI16 (a b : Int) : Gen.Ssa7.mathext_util_MaxI16 a b = max a b := by
  unfold Gen.Ssa7.mathext_util_MaxI16
  simp only [decide_eq_true_eq]
  split <;> omega

/-- arguments that are `int16` values give a `int16` value -/
theorem Tie_mathext_util_MaxI16_range (a b : Int) (ha : Util.InS 16 a) (hb : Util.InS 16 b) :
    Util.InS 16 (Gen.Ssa7.mathext_util_MaxI16 a b) := by
  rw [Tie_mathext_util_MaxI16]; exact Util.InS_max ha hb

example : Gen.Ssa7.mathext_util_MaxI16 (-3) 2 = 2 := by decide

end Low
