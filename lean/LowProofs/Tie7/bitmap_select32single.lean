import LowProofs.Tie7.bitmap_select32single_L
/-
  Tie: the definition regenerated from the SSA form of `bitmap.select32single` (unexported, used only by the tests),
  with the select index built by `IndexSelect32` (the model's `indexSelect32`), returns
    * `-1` for a negative `i`,
    * the position of the `i`-th 1-bit for `0 ≤ i < number of 1-bits`,
    * `64 * len(words)` for every `i ≥ number of 1-bits`
  — the last two together: entry `i` of the specification list `ones ws` with default `64 * ws.length`.
-/
namespace Low
open Low.GoSem Low.TieL Low.Tie2L Low.Tie2Sel Low.C02L Low.Tie7Sel

namespace Tie7Sel

theorem ones_length_le (ws : List Nat) : (ones ws).length ≤ 64 * ws.length := by
  unfold ones
  exact Nat.le_trans (List.length_filter_le _ _) (by rw [List.length_range]; exact Nat.le_refl _)

theorem sidx_length (ws : List Nat) : (indexSelect32 ws).length = ((ones ws).length + 31) / 32 := by
  rw [indexSelect32_eq, List.length_map, List.length_range]

/-- the non-negative case, after the select-index lookup: `i = 32*k + f` with `0 < f < 32`, `p0` the position of
    the `32*k`-th 1-bit -/
theorem after_lookup (ws : List Nat) (hok : WordsOK ws) (n p0 w0 fuel : Nat) (sidx : List Int) (i : Int)
    (hlen : ws.length < 2 ^ 25) (hfuel : ws.length + 1 ≤ fuel)
    (hp0lt : p0 < 64 * ws.length) (hp0r : rank ws p0 = 32 * (n / 32)) (hw0 : ws[p0 / 64]? = some w0) :
    Gen.Ssa7.bitmap_select32single_loop7 fuel ws sidx i (ws.length : Int) fuel (((p0 / 64) * 64 : Nat) : Int)
        ((n % 32 : Nat) : Int) ((p0 / 64 : Nat) : Int) (w0 &&& not64 (mask (p0 % 64)))
      = some (((ones ws).getD n (64 * ws.length) : Nat) : Int) := by
  have hl : ws.length < 33554432 := by simp only [Nat.reducePow] at hlen; exact hlen
  have hwlt : p0 / 64 < ws.length := by omega
  have hw064 : w0 < 2 ^ 64 := hok _ (List.mem_of_getElem? hw0)
  have hm0 : Masked w0 (p0 % 64) (w0 &&& not64 (mask (p0 % 64))) := by
    have := masked_and (d := p0 % 64) hw064 (masked_refl w0)
    rwa [Nat.zero_max] at this
  have hf0 : n % 32 + rank ws (64 * (p0 / 64) + p0 % 64) = n := by
    have e : 64 * (p0 / 64) + p0 % 64 = p0 := by omega
    rw [e, hp0r]; omega
  rw [ss_loop fuel ws sidx i hlen _ _ (p0 / 64) (n % 32) fuel rfl (by simp only [List.length_drop]; omega) hwlt
    (by simp only [Nat.reducePow]; omega)]
  by_cases hlt : n < (ones ws).length
  · have hi' : n < rank ws (64 * ws.length) := by rw [← ones_length]; exact hlt
    obtain ⟨w', wI', f', w0', c', hskip, hw', hm', hc', hf', hlt'⟩ :=
      sel32Skip_spec hi' _ _ _ _ _ _ rfl hw0 hm0 (by omega) hf0
    have hwI' : wI' < ws.length := (List.getElem?_eq_some_iff.mp hw').1
    obtain ⟨r, hr, hs, hr64⟩ := ss32_spec (wI' * 64) f' w' (by omega) hlt'
    obtain ⟨hbit, hrank, _⟩ := sel_in_word hw' hm' hc' hf' hs hr64
    have hon := ones_rank hbit
    rw [hrank] at hon
    rw [hskip]
    show ss32 ((wI' * 64 : Nat) : Int) (f' : Int) w' = _
    rw [hr, List.getD, hon, Option.getD_some]
    have e : wI' * 64 + r = 64 * wI' + r := by omega
    rw [e]
  · have hi' : rank ws (64 * ws.length) ≤ n := by rw [← ones_length]; omega
    rw [sel32Skip_none hi' _ _ _ _ _ _ rfl hw0 hm0 (by omega) hf0]
    show some _ = _
    rw [List.getD, List.getElem?_eq_none (by omega), Option.getD_none]

end Tie7Sel

/-- Domain.
    * `WordsOK ws`: every word is a uint64 (representation invariant of `[]uint64`; the masked first word is only
      then the word without its low bits).
    * `ws.length < 2^25` (the project's `BmDom`): `wordI<<6`, `base += 64/32/16/8`, `l*64` stay below `2^31`.
    * the select index is the one `IndexSelect32` builds.
    * every `int32` value `i` (any integer, in fact: `i` only goes through `< 0`, `>> 5`, `& 31`).
    Fuel: every `fuel ≥ len(words) + 1`.  No panic anywhere in this domain. -/
theorem Tie_bitmap_select32single (ws : List Nat) (hok : WordsOK ws) (i : Int) (fuel : Nat)
    (hlen : ws.length < 2 ^ 25) (hfuel : ws.length + 1 ≤ fuel) :
    Gen.Ssa7.bitmap_select32single fuel ws ((indexSelect32 ws).map Int.ofNat) i
      = some (if i < 0 then -1 else (((ones ws).getD i.toNat (64 * ws.length) : Nat) : Int)) := by
  by_cases hneg : i < 0
  · rw [Gen.Ssa7.bitmap_select32single]
    simp only [hneg, decide_true, ↓reduceIte]
  obtain ⟨n, rfl⟩ : ∃ n : Nat, i = (n : Int) := ⟨i.toNat, by omega⟩
  have hl : ws.length < 33554432 := by simp only [Nat.reducePow] at hlen; exact hlen
  have hol := ones_length_le ws
  have hsl := sidx_length ws
  have hl32 : toI32 (len ws) = (ws.length : Int) := by rw [len_eq]; exact toI32_ofNat_lt (by omega)
  have hsl' : toI32 (len ((indexSelect32 ws).map Int.ofNat)) = ((indexSelect32 ws).length : Int) := by
    rw [len_eq, List.length_map]; exact toI32_ofNat_lt (by omega)
  have h31 : toI64 (((n % 32 : Nat) : Nat) : Int) = ((n % 32 : Nat) : Int) := toI64_ofNat_lt (by omega)
  have hml : ws.length * 64 < 9223372036854775808 := by omega
  have hm64 : toI32 (mulI64 (len ws) 64) = ((64 * ws.length : Nat) : Int) := by
    rw [len_eq, mulI64, show ((64 : Int)) = ((64 : Nat) : Int) from rfl, ← Int.natCast_mul, wrap64_ofNat hml,
      toI32_ofNat_lt (by omega), Nat.mul_comm]
  rw [Gen.Ssa7.bitmap_select32single]
  simp only [hneg, decide_false, Bool.false_eq_true, ↓reduceIte, hl32, hsl', hm64, shrI32_5_ofNat, ge_iff_le,
    Int.ofNat_le, decide_eq_true_eq, andI32_31_ofNat, h31, index_ofNat, List.getElem?_map, Int.toNat_natCast]
  by_cases hge : (indexSelect32 ws).length ≤ n / 32
  · rw [if_pos hge, List.getD, List.getElem?_eq_none (by omega), Option.getD_none]
  · rw [if_neg hge]
    have h32 : 32 * (n / 32) < (ones ws).length := by omega
    obtain ⟨p0, hidx, _, hp0lt, hp0b, hp0r⟩ := sidx_entry h32
    have ek : 32 * (n / 32) / 32 = n / 32 := by omega
    rw [ek] at hidx hp0r
    have hwlt : p0 / 64 < ws.length := by omega
    have hw0 : ws[p0 / 64]? = some ws[p0 / 64] := List.getElem?_eq_getElem hwlt
    simp only [hidx, Option.map_some, Option.bind_some, Int.ofNat_eq_natCast, shrI32_6_ofNat, index_ofNat, hw0,
      andI32_63_ofNat, tblMask_ofNat (show p0 % 64 < 65 by omega), notU64, andU64_eq,
      shlI32_6_ofNat (show p0 / 64 * 64 < 2147483648 by omega)]
    by_cases h0 : n % 32 = 0
    · have hon := ones_rank hp0b
      rw [hp0r] at hon
      have en : 32 * (n / 32) = n := by omega
      rw [en] at hon
      simp only [h0, Int.natCast_eq_zero, ↓reduceIte, List.getD, hon, Option.getD_some]
    · simp only [Int.natCast_eq_zero, h0, ↓reduceIte]
      exact after_lookup ws hok n p0 _ fuel _ _ hlen hfuel hp0lt hp0r hw0

example : Gen.Ssa7.bitmap_select32single 4 [0x12, 0, 0x100] [1] 1 = some 4 := by decide +kernel
example : Gen.Ssa7.bitmap_select32single 4 [0x12, 0, 0x100] [1] 2 = some 136 := by decide +kernel
example : Gen.Ssa7.bitmap_select32single 4 [0x12, 0, 0x100] [1] 3 = some 192 := by decide +kernel
example : Gen.Ssa7.bitmap_select32single 4 [0x12, 0, 0x100] [1] 32 = some 192 := by decide +kernel
example : Gen.Ssa7.bitmap_select32single 4 [0x12, 0, 0x100] [1] (-5) = some (-1) := by decide +kernel
example : indexSelect32 [0x12, 0, 0x100] = [1] ∧ ones [0x12, 0, 0x100] = [1, 4, 136] := by decide +kernel

/-- the theorem's hypotheses are satisfiable -/
example := Tie_bitmap_select32single [0x12, 0, 0x100] (by unfold WordsOK; decide) 2 4 (by decide) (by decide)

end Low
