import Generated.Ssa7.mathext_util_MinI32
import LowProofs.Tie7.mathext_util_L
/- Tie of `mathext/util.MinI32` (regenerated definition = specification); see `mathext_util_L.lean`. -/
namespace Low

/-- `MinI32(a, b)` (`int32`) is the smaller of its arguments, for ALL values (the generated definition
    only compares its arguments; a comparison of in-range representatives is the Go comparison of the type). -/
theorem Tie_mathext_util_MinI32 (a b : Int) : Gen.Ssa7.mathext_util_MinI32 a b = min a b := by
  unfold Gen.Ssa7.mathext_util_MinI32
  simp only [decide_eq_true_eq]
  split <;> omega

/-- arguments that are `int32` values give a `int32` value -/
theorem Tie_mathext_util_MinI32_range (a b : Int) (ha : Util.InS 32 a) (hb : Util.InS 32 b) :
    Util.InS 32 (Gen.Ssa7.mathext_util_MinI32 a b) := by
  rw [Tie_mathext_util_MinI32]; exact Util.InS_min ha hb

example : Gen.Ssa7.mathext_util_MinI32 (-3) 2 = (-3) := by decide

end Low
