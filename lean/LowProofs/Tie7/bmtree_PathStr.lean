import Generated.Ssa7.bmtree_PathStr
import LowModel.Bmtree.Path
import LowProofs.Tie.bmtree_PathHeight
import LowProofs.Tie.bmtree_PathLen
/-
  Tie: the definition regenerated from the SSA form of `bmtree.PathStr` equals the model's `pathStr` (the bytes of the
  string).  The one call `fmt.Sprintf("%0[1]*[2]b", l, path>>uint(32+treeHeight-l))` is EXTERNAL: its contract for exactly
  this format is the vocabulary function `GoSem7.sprintfBinPad` (binary digits, zero-padded on the left to the width;
  validated against the real `fmt` by the differential test of tools/ssa2lean7); the model's `fmtBin` is the same
  function on the range of widths that occurs (`0 ≤ l ≤ 32`).
-/
namespace Low
open Low.GoSem Low.TieL

/-- For EVERY path word `p` (no hypothesis): the Go function does not panic and returns the bytes of `pathStr p`. -/
theorem Tie_bmtree_PathStr (p : Nat) :
    Gen.Ssa7.bmtree_PathStr p = some ((pathStr p).toList.map Char.toNat) := by
  have hl : pathLen p ≤ 32 := popc_le _ _
  have hh : pathHeight p ≤ 32 := by unfold pathHeight; omega
  rw [Gen.Ssa7.bmtree_PathStr, Tie_bmtree_PathHeight, Tie_bmtree_PathLen]
  by_cases h0 : pathLen p = 0
  · simp [h0, pathStr]
  · have hne : ¬ ((pathLen p : Int) = 0) := by omega
    have e3 : addI32 (32 : Int) (pathHeight p : Int) = ((32 + pathHeight p : Nat) : Int) :=
      addI32_ofNat (a := 32) (b := pathHeight p) (by omega)
    have e4 : subI32 ((32 + pathHeight p : Nat) : Int) (pathLen p : Int) = ((32 + pathHeight p - pathLen p : Nat) : Int) :=
      subI32_ofNat (by omega) (by omega)
    have e5 : toU64 ((32 + pathHeight p - pathLen p : Nat) : Int) = 32 + pathHeight p - pathLen p :=
      toU64_ofNat_lt (by omega)
    simp only [hne, decide_false, Bool.false_eq_true, ↓reduceIte, e3, e4, e5, shrU64_eq]
    simp only [pathStr, h0, ↓reduceIte, fmtBin, binDigits, GoSem7.sprintfBinPad]
    have h1 : ¬ ((pathLen p : Int) < -1000000 ∨ 1000000 < (pathLen p : Int)) := by omega
    have h2 : ¬ ((pathLen p : Int) < 0) := by omega
    simp only [h1, h2, ↓reduceIte, String.toList_ofList, List.map_append, List.map_replicate, List.length_map,
      Int.toNat_natCast]
    rfl

example : Gen.Ssa7.bmtree_PathStr 0x0000000500000007 = some [49, 48, 49] := by decide +kernel   -- "101"
example : Gen.Ssa7.bmtree_PathStr 0 = some [] := by decide +kernel

end Low
