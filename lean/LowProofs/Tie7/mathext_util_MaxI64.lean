import Generated.Ssa7.mathext_util_MaxI64
import LowProofs.Tie7.mathext_util_L
/- Tie of `mathext/util.MaxI64` (regenerated definition = specification); see `mathext_util_L.lean`. -/
namespace Low

/-- `MaxI64(a, b)` (`int64`) is the larger of its arguments, for ALL values (the generated definition
    only compares its arguments; a comparison of in-range representatives is the Go comparison of the type). -/
theorem Tie_mathext_util_MaxI64 (a b : Int) : Gen.Ssa7.mathext_util_MaxI64 a b = max a b := by
  unfold Gen.Ssa7.mathext_util_MaxI64
  simp only [decide_eq_true_eq]
  split <;> omega

/-- arguments that are `int64` values give a `int64` value -/
theorem Tie_mathext_util_MaxI64_range (a b : Int) (ha : Util.InS 64 a) (hb : Util.InS 64 b) :
    Util.InS 64 (Gen.Ssa7.mathext_util_MaxI64 a b) := by
  rw [Tie_mathext_util_MaxI64]; exact Util.InS_max ha hb

example : Gen.Ssa7.mathext_util_MaxI64 (-3) 2 = 2 := by decide

end Low
