import Generated.Ssa7.mathext_util_MinU32
import LowProofs.Tie7.mathext_util_L
/- Tie of `mathext/util.MinU32` (regenerated definition = specification); see `mathext_util_L.lean`. -/
namespace Low

/-- `MinU32(a, b)` (`uint32`) is the smaller of its arguments, for ALL values (the generated definition
    only compares its arguments; a comparison of in-range representatives is the Go comparison of the type). -/
theorem Tie_mathext_util_MinU32 (a b : Nat) : Gen.Ssa7.mathext_util_MinU32 a b = min a b := by
  unfold Gen.Ssa7.mathext_util_MinU32
  simp only [decide_eq_true_eq]
  split <;> omega

/-- arguments that are `uint32` values give a `uint32` value -/
theorem Tie_mathext_util_MinU32_range (a b : Nat) (ha : Util.InU 32 a) (hb : Util.InU 32 b) :
    Util.InU 32 (Gen.Ssa7.mathext_util_MinU32 a b) := by
  rw [Tie_mathext_util_MinU32]; exact Util.InU_min ha hb

example : Gen.Ssa7.mathext_util_MinU32 3 2 = 2 := by decide

end Low
