import Generated.Ssa7.iohelper_AtToWriter
import LowModel.Iohelper
import LowProofs.Tie.Lemmas
/-
  Tie: the definition regenerated from the SSA form of `iohelper.AtToWriter`
  (`NewSectionWriter(w, offset, maxOffset-offset)` converted to `io.Writer`) equals the model's `atToWriter offset`
  for ALL `offset`.  The interface value holds the pointer to the new struct: the result is the callee's tuple
  `(base, off, limit)`.
-/
namespace Low

theorem Tie_iohelper_AtToWriter (offset : Int) :
    Gen.Ssa7.iohelper_AtToWriter offset
      = ((atToWriter offset).base, (atToWriter offset).off, (atToWriter offset).limit) := rfl

/-- for a non-negative offset the section ends at the largest int64 ("no practical end") -/
theorem Tie_iohelper_AtToWriter_limit (offset : Int) (h0 : 0 ≤ offset) (h1 : offset ≤ 0x7fffffffffffffff) :
    Gen.Ssa7.iohelper_AtToWriter offset = (offset, offset, 0x7fffffffffffffff) := by
  rw [Tie_iohelper_AtToWriter]
  simp only [atToWriter, newSectionWriter, maxOffset]
  have e1 : wrap64 (0x7fffffffffffffff - offset) = 0x7fffffffffffffff - offset := by
    exact TieL.wrap64_id (by omega) (by omega)
  rw [e1]
  have e2 : wrap64 (offset + (0x7fffffffffffffff - offset)) = 0x7fffffffffffffff := by
    have : offset + (0x7fffffffffffffff - offset) = 0x7fffffffffffffff := by omega
    rw [this]; decide
  rw [e2]

example : Gen.Ssa7.iohelper_AtToWriter 100 = (100, 100, 0x7fffffffffffffff) := by decide

end Low
