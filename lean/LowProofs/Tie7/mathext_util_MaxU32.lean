import Generated.Ssa7.mathext_util_MaxU32
import LowProofs.Tie7.mathext_util_L
/- Tie of `mathext/util.MaxU32` (regenerated definition = specification); see `mathext_util_L.lean`. -/
namespace Low

/-- `MaxU32(a, b)` (`uint32`) is the larger of its arguments, for ALL values (the generated definition
    only compares its arguments; a comparison of in-range representatives is the Go comparison of the type). -/
theorem Tie_mathext_util_MaxU32 (a b : Nat) : Gen.Ssa7.mathext_util_MaxU32 a b = max a b := by
  unfold Gen.Ssa7.mathext_util_MaxU32
  simp only [decide_eq_true_eq]
  split <;> omega

/-- arguments that are `uint32` values give a `uint32` value -/
theorem Tie_mathext_util_MaxU32_range (a b : Nat) (ha : Util.InU 32 a) (hb : Util.InU 32 b) :
    Util.InU 32 (Gen.Ssa7.mathext_util_MaxU32 a b) := by
  rw [Tie_mathext_util_MaxU32]; exact Util.InU_max ha hb

example : Gen.Ssa7.mathext_util_MaxU32 3 2 = 3 := by decide

end Low
