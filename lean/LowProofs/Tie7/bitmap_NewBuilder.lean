import Generated.Ssa7.bitmap_NewBuilder
import LowModel.Bitmap.Of
import LowProofs.Tie3.Lemmas
/-
  Tie: the definition regenerated from the SSA form of the constructor `bitmap.NewBuilder`
  (`&Builder{Words: make([]uint64, 0, n>>6), Offset: 0}`) returns the tuple of the fields of the new struct,
  `(Words, Offset)`; it equals the model's initial builder `⟨[], 0⟩` (the state `C12_builder` starts from).
  The preallocated capacity `n>>6` is not observable (capacities are not modelled); what IS observable is that
  `make` panics for a negative capacity.
-/
namespace Low
open Low.GoSem Low.GoSem3 Low.TieL Low.Tie3L

/-- the model's initial builder (`C12_builder` starts from this literal) -/
def newBuilder : Builder := ⟨[], 0⟩

/-- Domain: `n ≥ 0` (the number of bits to preallocate).  No panic; the result is the empty builder. -/
theorem Tie_bitmap_NewBuilder (n : Int) (h0 : 0 ≤ n) :
    Gen.Ssa7.bitmap_NewBuilder n = some (newBuilder.words, newBuilder.offset) := by
  rw [Gen.Ssa7.bitmap_NewBuilder]
  have h : (0 : Int) ≤ shrI32 n 6 := by rw [shrI32_6]; omega
  simp only [makeSliceCap, Int.le_refl, h, and_self, ↓reduceIte, Option.bind_some, newBuilder]
  rfl

/-- OUTSIDE the domain: for `n < 0` (nothing in the Go code rejects it) `make([]uint64, 0, n>>6)` panics with
    "makeslice: cap out of range".  The model has no counterpart: its initial state is a literal. -/
theorem Tie_bitmap_NewBuilder_neg (n : Int) (h : n < 0) : Gen.Ssa7.bitmap_NewBuilder n = none := by
  rw [Gen.Ssa7.bitmap_NewBuilder]
  have h' : ¬ ((0 : Int) ≤ 0 ∧ (0 : Int) ≤ shrI32 n 6) := by rw [shrI32_6]; omega
  simp only [makeSliceCap, h', ↓reduceIte, Option.bind_none]

example : Gen.Ssa7.bitmap_NewBuilder 1000 = some ([], 0) := by decide
example : Gen.Ssa7.bitmap_NewBuilder (-1) = none := by decide

end Low
