import Generated.Ssa7.mathext_util_MaxI8
import LowProofs.Tie7.mathext_util_L
/- Tie of `mathext/util.MaxI8` (regenerated definition = specification); see `mathext_util_L.lean`. -/
namespace Low

/-- `MaxI8(a, b)` (`int8`) is the larger of its arguments, for ALL values (the generated definition
    only compares its arguments; a comparison of in-range representatives is the Go comparison of the type). -/
theorem Tie_mathext_util_MaxI8 (a b : Int) : Gen.Ssa7.mathext_util_MaxI8 a b = max a b := by
  unfold Gen.Ssa7.mathext_util_MaxI8
  simp only [decide_eq_true_eq]
  split <;> omega

/-- arguments that are `int8` values give a `int8` value -/
theorem Tie_mathext_util_MaxI8_range (a b : Int) (ha : Util.InS 8 a) (hb : Util.InS 8 b) :
    Util.InS 8 (Gen.Ssa7.mathext_util_MaxI8 a b) := by
  rw [Tie_mathext_util_MaxI8]; exact Util.InS_max ha hb

example : Gen.Ssa7.mathext_util_MaxI8 (-3) 2 = 2 := by decide

end Low
