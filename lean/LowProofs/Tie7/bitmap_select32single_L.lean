import Generated.Ssa7.bitmap_select32single
import LowModel.Bitmap.Select
import LowProofs.Lemmas.C02Loops
import LowProofs.Tie2.bitmap_Select_L
/-
  Lemmas for the tie of `bitmap.select32single` (unexported, used only by the tests):
   * `ss32 / ss16 / ss8 / ssByte`: the in-word `32 / 16 / 8 / table` search in the shape in which go/ssa emits it for
     this function (it differs from the one of `Select32`: `OnesCount64(w & 0xffffffff)` instead of
     `OnesCount32(uint32(w))`, `base += 32` instead of `base |= 32`, a third halving step `w >>= 8` and
     `(w&0xff)<<3 + findIth` instead of the two table-index forms), and its specification: for `f` below the
     popcount it returns `base +` the position of the `f`-th 1-bit (`C02L.IsSel`);
   * `ss_loop`: the word-skipping loop is the model's `sel32Skip`, except that running off the end returns `l*64`
     instead of panicking.
-/
namespace Low.Tie7Sel
open Low Low.GoSem Low.TieL Low.Tie2L Low.Tie2Sel Low.C02L

/-! ### the in-word search as emitted -/

/-- block 15: the table lookup -/
def ssByte (base f : Int) (w : Nat) : Option Int :=
  Option.bind (GoSem2.tblSelect8 ((addU64 (shlU64 (andU64 w 255) 3) (toU64 f) : Nat) : Int)) fun t66 =>
    some (addI32 base (toI32 (t66 : Int)))

/-- blocks 13/14: the byte step -/
def ss8 (base f : Int) (w : Nat) : Option Int :=
  if decide (onesCount64 (andU64 w 255) ≤ f) = true then
    ssByte (addI32 base 8) (subI64 f (onesCount64 (andU64 w 255))) (shrU64 w 8)
  else ssByte base f w

/-- blocks 11/12: the 16-bit step -/
def ss16 (base f : Int) (w : Nat) : Option Int :=
  if decide (onesCount64 (andU64 w 65535) ≤ f) = true then
    ss8 (addI32 base 16) (subI64 f (onesCount64 (andU64 w 65535))) (shrU64 w 16)
  else ss8 base f w

/-- blocks 8/10: the 32-bit step -/
def ss32 (base f : Int) (w : Nat) : Option Int :=
  if decide (onesCount64 (andU64 w 4294967295) ≤ f) = true then
    ss16 (addI32 base 32) (subI64 f (onesCount64 (andU64 w 4294967295))) (shrU64 w 32)
  else ss16 base f w

/-- one iteration of the generated loop -/
theorem loop7_step (fuel : Nat) (ws : List Nat) (sidx : List Int) (i t15 : Int) (gas : Nat) (t25 t26 t27 : Int)
    (t28 : Nat) :
    Gen.Ssa7.bitmap_select32single_loop7 fuel ws sidx i t15 (gas + 1) t25 t26 t27 t28 =
      if decide (onesCount64 t28 > t26) = true then ss32 t25 t26 t28
      else if decide (addI32 t27 1 ≥ t15) = true then some (mulI32 t15 64)
      else Option.bind (index ws (addI32 t27 1)) fun t71 =>
        Gen.Ssa7.bitmap_select32single_loop7 fuel ws sidx i t15 gas (addI32 t25 64) (subI64 t26 (onesCount64 t28))
          (addI32 t27 1) t71 := by
  rw [Gen.Ssa7.bitmap_select32single_loop7]
  rfl

/-! ### popcounts of the masked words -/

theorem oc_and (w j : Nat) (m : Nat) (hm : m = mask j) (hj : j ≤ 64) :
    onesCount64 (andU64 w m) = ((popc w j : Nat) : Int) := by
  rw [onesCount64, andU64_eq, hm, popc_and_mask, Nat.min_eq_right hj]

theorem oc_255 (w : Nat) : onesCount64 (andU64 w 255) = ((popc w 8 : Nat) : Int) :=
  oc_and w 8 255 (by decide) (by decide)
theorem oc_65535 (w : Nat) : onesCount64 (andU64 w 65535) = ((popc w 16 : Nat) : Int) :=
  oc_and w 16 65535 (by decide) (by decide)
theorem oc_32 (w : Nat) : onesCount64 (andU64 w 4294967295) = ((popc w 32 : Nat) : Int) :=
  oc_and w 32 4294967295 (by decide) (by decide)

/-! ### the search returns the position of the `f`-th 1-bit -/

theorem ssByte_spec (b f w : Nat) (hb : b + 8 < 2147483648) (hf : f < popc w 8) :
    ∃ r, ssByte (b : Int) (f : Int) w = some ((b + r : Nat) : Int) ∧ IsSel w f r ∧ r < 8 := by
  have hk : f < popc (w % 256) 8 := by
    rw [popc_congr (fun j hj => testBit_mod_256 w j hj)]; exact hf
  have hf8 : f < 8 := Nat.lt_of_lt_of_le hf (popc_le _ 8)
  have hm : w % 256 < 256 := Nat.mod_lt _ (by decide)
  obtain ⟨r, hr, hs, hr8⟩ := table_spec hm hk
  refine ⟨r, ?_, isSel_congr (fun j hj => testBit_mod_256 _ j hj) hr8 hs, hr8⟩
  have e1 : shlU64 (andU64 w 255) 3 = (w % 256) * 8 := by
    rw [shl3_255, show (0xff : Nat) = 2 ^ 8 - 1 from rfl, Nat.and_two_pow_sub_one_eq_mod, Nat.shiftLeft_eq]
  have e2 : toU64 (f : Int) = f := toU64_ofNat_lt (by omega)
  have e3 : addU64 ((w % 256) * 8) f = (w % 256) * 8 + f := by
    rw [addU64, add64]; apply Nat.mod_eq_of_lt; simp only [M64]; omega
  have hlt : b + r < 2147483648 := by omega
  have hr32 : r < 2147483648 := by omega
  have e4 : toI32 (r : Int) = r := toI32_ofNat_lt hr32
  have e5 : addI32 (b : Int) (r : Int) = ((b + r : Nat) : Int) := addI32_ofNat hlt
  unfold ssByte
  rw [e1, e2, e3, tblSelect8_ofNat, hr]
  show some (addI32 (b : Int) (toI32 (r : Int))) = _
  rw [e4, e5]

theorem ss8_spec (b f w : Nat) (hb : b + 16 < 2147483648) (hf : f < popc w 16) :
    ∃ r, ss8 (b : Int) (f : Int) w = some ((b + r : Nat) : Int) ∧ IsSel w f r ∧ r < 16 := by
  have hsplit : popc w 16 = popc w 8 + popc (w >>> 8) 8 := popc_add w 8 8
  have hp : popc w 8 ≤ 8 := popc_le w 8
  unfold ss8
  simp only [oc_255, Int.ofNat_le, decide_eq_true_eq]
  by_cases h : popc w 8 ≤ f
  · have hf63 : f < 9223372036854775808 := by have := popc_le w 16; omega
    have hb8 : b + 8 < 2147483648 := by omega
    have e1 : subI64 (f : Int) ((popc w 8 : Nat) : Int) = ((f - popc w 8 : Nat) : Int) := subI64_ofNat h hf63
    have e2 : addI32 (b : Int) ((8 : Nat) : Int) = ((b + 8 : Nat) : Int) := addI32_ofNat hb8
    obtain ⟨r, hr, hs, hr8⟩ := ssByte_spec (b + 8) (f - popc w 8) (w >>> 8) (by omega) (by omega)
    refine ⟨8 + r, ?_, isSel_high h hs, by omega⟩
    rw [if_pos h, e1, show ((8 : Int)) = ((8 : Nat) : Int) from rfl, e2, shrU64_lt w (by decide : 8 < 64), hr]
    have e : b + 8 + r = b + (8 + r) := by omega
    rw [e]
  · obtain ⟨r, hr, hs, hr8⟩ := ssByte_spec b f w (by omega) (by omega)
    exact ⟨r, by rw [if_neg h, hr], hs, by omega⟩

theorem ss16_spec (b f w : Nat) (hb : b + 32 < 2147483648) (hf : f < popc w 32) :
    ∃ r, ss16 (b : Int) (f : Int) w = some ((b + r : Nat) : Int) ∧ IsSel w f r ∧ r < 32 := by
  have hsplit : popc w 32 = popc w 16 + popc (w >>> 16) 16 := popc_add w 16 16
  have hp : popc w 16 ≤ 16 := popc_le w 16
  unfold ss16
  simp only [oc_65535, Int.ofNat_le, decide_eq_true_eq]
  by_cases h : popc w 16 ≤ f
  · have hf63 : f < 9223372036854775808 := by have := popc_le w 32; omega
    have hb8 : b + 16 < 2147483648 := by omega
    have e1 : subI64 (f : Int) ((popc w 16 : Nat) : Int) = ((f - popc w 16 : Nat) : Int) := subI64_ofNat h hf63
    have e2 : addI32 (b : Int) ((16 : Nat) : Int) = ((b + 16 : Nat) : Int) := addI32_ofNat hb8
    obtain ⟨r, hr, hs, hr8⟩ := ss8_spec (b + 16) (f - popc w 16) (w >>> 16) (by omega) (by omega)
    refine ⟨16 + r, ?_, isSel_high h hs, by omega⟩
    rw [if_pos h, e1, show ((16 : Int)) = ((16 : Nat) : Int) from rfl, e2, shrU64_lt w (by decide : 16 < 64), hr]
    have e : b + 16 + r = b + (16 + r) := by omega
    rw [e]
  · obtain ⟨r, hr, hs, hr8⟩ := ss8_spec b f w (by omega) (by omega)
    exact ⟨r, by rw [if_neg h, hr], hs, by omega⟩

/-- the emitted in-word search: for `f` below the popcount of `w` it returns `base +` the position of the `f`-th
    1-bit of `w` -/
theorem ss32_spec (b f w : Nat) (hb : b + 64 < 2147483648) (hf : f < popc w 64) :
    ∃ r, ss32 (b : Int) (f : Int) w = some ((b + r : Nat) : Int) ∧ IsSel w f r ∧ r < 64 := by
  have hsplit : popc w 64 = popc w 32 + popc (w >>> 32) 32 := popc_add w 32 32
  have hp : popc w 32 ≤ 32 := popc_le w 32
  unfold ss32
  simp only [oc_32, Int.ofNat_le, decide_eq_true_eq]
  by_cases h : popc w 32 ≤ f
  · have hf63 : f < 9223372036854775808 := by have := popc_le w 64; omega
    have hb8 : b + 32 < 2147483648 := by omega
    have e1 : subI64 (f : Int) ((popc w 32 : Nat) : Int) = ((f - popc w 32 : Nat) : Int) := subI64_ofNat h hf63
    have e2 : addI32 (b : Int) ((32 : Nat) : Int) = ((b + 32 : Nat) : Int) := addI32_ofNat hb8
    obtain ⟨r, hr, hs, hr8⟩ := ss16_spec (b + 32) (f - popc w 32) (w >>> 32) (by omega) (by omega)
    refine ⟨32 + r, ?_, isSel_high h hs, by omega⟩
    rw [if_pos h, e1, show ((32 : Int)) = ((32 : Nat) : Int) from rfl, e2, shrU64_lt w (by decide : 32 < 64), hr]
    have e : b + 32 + r = b + (32 + r) := by omega
    rw [e]
  · obtain ⟨r, hr, hs, hr8⟩ := ss16_spec b f w (by omega) (by omega)
    exact ⟨r, by rw [if_neg h, hr], hs, by omega⟩

/-! ### the word-skipping loop -/

/-- what follows the word-skipping loop: off the end (`sel32Skip = none`) the code returns `l*64`; otherwise the
    in-word search in the word found -/
def ssAfter (len : Nat) : Option (Nat × Nat × Nat) → Option Int
  | none => some ((64 * len : Nat) : Int)
  | some p => ss32 ((p.2.1 * 64 : Nat) : Int) (p.2.2 : Int) p.1

/-- the generated loop at `wordI` with current word `w`, `rest = words[wordI+1:]`, `base = wordI*64` -/
theorem ss_loop (fuel : Nat) (ws : List Nat) (sidx : List Int) (i : Int) (hlen : ws.length < 2 ^ 25) :
    ∀ (rest : List Nat) (w wordI f gas : Nat), rest = ws.drop (wordI + 1) → rest.length + 1 ≤ gas →
      wordI < ws.length → f < 2 ^ 62 →
      Gen.Ssa7.bitmap_select32single_loop7 fuel ws sidx i (ws.length : Int) gas ((wordI * 64 : Nat) : Int) (f : Int)
          (wordI : Int) w
        = ssAfter ws.length (sel32Skip rest w wordI f)
  | [], w, wordI, f, gas, hrest, hg, hwI, hf => by
    obtain ⟨g, rfl⟩ : ∃ g, gas = g + 1 := ⟨gas - 1, by omega⟩
    have hl : ws.length < 33554432 := by simp only [Nat.reducePow] at hlen; exact hlen
    have hle : ws.length ≤ wordI + 1 := drop_eq_nil_le hrest
    have hw1 : wordI + 1 < 2147483648 := by omega
    have e1 : addI32 (wordI : Int) ((1 : Nat) : Int) = ((wordI + 1 : Nat) : Int) := addI32_ofNat hw1
    have hml : ws.length * 64 < 2147483648 := by omega
    have e2 : mulI32 (ws.length : Int) ((64 : Nat) : Int) = ((64 * ws.length : Nat) : Int) := by
      rw [mulI32_natCast, wrap32_ofNat hml, Nat.mul_comm]
    rw [loop7_step, sel32Skip, onesCount64]
    simp only [gt_iff_lt, Int.ofNat_lt, decide_eq_true_eq]
    by_cases h : popc w 64 ≤ f
    · have h' : ¬ (f < popc w 64) := by omega
      have hge : ((wordI + 1 : Nat) : Int) ≥ (ws.length : Int) := by omega
      rw [if_neg h', if_pos h, show ((1 : Int)) = ((1 : Nat) : Int) from rfl, e1, if_pos hge,
        show ((64 : Int)) = ((64 : Nat) : Int) from rfl, e2]
      rfl
    · have h' : f < popc w 64 := by omega
      rw [if_pos h', if_neg h]
      rfl
  | w' :: r, w, wordI, f, gas, hrest, hg, hwI, hf => by
    obtain ⟨g, rfl⟩ : ∃ g, gas = g + 1 := ⟨gas - 1, by omega⟩
    have hl : ws.length < 33554432 := by simp only [Nat.reducePow] at hlen; exact hlen
    have hlt : wordI + 1 < ws.length := drop_eq_cons_lt hrest
    have hw1 : wordI + 1 < 2147483648 := by omega
    have e1 : addI32 (wordI : Int) ((1 : Nat) : Int) = ((wordI + 1 : Nat) : Int) := addI32_ofNat hw1
    have hb64 : wordI * 64 + 64 < 2147483648 := by omega
    have e3 : addI32 ((wordI * 64 : Nat) : Int) ((64 : Nat) : Int) = (((wordI + 1) * 64 : Nat) : Int) := by
      have e : wordI * 64 + 64 = (wordI + 1) * 64 := by omega
      rw [addI32_ofNat hb64, e]
    rw [loop7_step, sel32Skip, onesCount64]
    simp only [gt_iff_lt, Int.ofNat_lt, decide_eq_true_eq]
    by_cases h : popc w 64 ≤ f
    · have h' : ¬ (f < popc w 64) := by omega
      have hf63 : f < 9223372036854775808 := by simp only [Nat.reducePow] at hf; omega
      have hnge : ¬ (((wordI + 1 : Nat) : Int) ≥ (ws.length : Int)) := by omega
      have e2 : subI64 (f : Int) ((popc w 64 : Nat) : Int) = ((f - popc w 64 : Nat) : Int) := subI64_ofNat h hf63
      have ih := ss_loop fuel ws sidx i hlen r w' (wordI + 1) (f - popc w 64) g
        (drop_succ_of_drop_eq_cons hrest) (by simp only [List.length_cons] at hg; omega) hlt
        (by simp only [Nat.reducePow] at hf ⊢; omega)
      rw [if_neg h', if_pos h, show ((1 : Int)) = ((1 : Nat) : Int) from rfl, e1, if_neg hnge,
        index_ofNat, getElem?_of_drop_eq_cons hrest, show ((64 : Int)) = ((64 : Nat) : Int) from rfl, e3, e2]
      exact ih
    · have h' : f < popc w 64 := by omega
      rw [if_pos h', if_neg h]
      rfl

/-! ### `sel32Skip` beyond the last 1-bit -/

/-- when fewer than `i + 1` 1-bits remain, the skip loop runs off the end -/
theorem sel32Skip_none {ws : List Nat} {i : Nat} (hi : rank ws (64 * ws.length) ≤ i) :
    ∀ (rest : List Nat) (w wI f w0 c : Nat), ws.drop (wI + 1) = rest → ws[wI]? = some w0 →
      Masked w0 c w → c ≤ 64 → f + rank ws (64 * wI + c) = i → sel32Skip rest w wI f = none := by
  intro rest
  induction rest with
  | nil =>
    intro w wI f w0 c hd hw hm hc hf
    have hlt : wI < ws.length := (List.getElem?_eq_some_iff.mp hw).1
    have hr := rank_word_masked hw hm hc
    have hmono := rank_mono ws (show 64 * wI + 64 ≤ 64 * ws.length by omega)
    rw [sel32Skip, if_pos (by omega)]
  | cons w1 r ih =>
    intro w wI f w0 c hd hw hm hc hf
    have hlt : wI < ws.length := (List.getElem?_eq_some_iff.mp hw).1
    have hr := rank_word_masked hw hm hc
    have hmono := rank_mono ws (show 64 * wI + 64 ≤ 64 * ws.length by omega)
    obtain ⟨hw1, _, hdr⟩ := drop_cons_facts hd
    have e : 64 * (wI + 1) + 0 = 64 * wI + 64 := by omega
    rw [sel32Skip, if_pos (by omega)]
    exact ih w1 (wI + 1) (f - popc w 64) w1 0 hdr hw1 (masked_refl w1) (by omega) (by rw [e, hr]; omega)

end Low.Tie7Sel
