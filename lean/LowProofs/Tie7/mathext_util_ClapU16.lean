import Generated.Ssa7.mathext_util_ClapU16
import LowProofs.Tie7.mathext_util_L
/- Tie of `mathext/util.ClapU16` (regenerated definition = specification); see `mathext_util_L.lean`. -/
namespace Low

/-- `ClapU16(n, min, max)` (`uint16`) is the clamp of `n` into `[min, max]`, for ALL values (the generated definition only
    compares its arguments).  When `min > max` the result is `max` (`Util.clampU_gt`; the source documents nothing). -/
theorem Tie_mathext_util_ClapU16 (n lo hi : Nat) : Gen.Ssa7.mathext_util_ClapU16 n lo hi = Util.clampU n lo hi := by
  unfold Gen.Ssa7.mathext_util_ClapU16 Util.clampU
  simp only [decide_eq_true_eq]
  split <;> split <;> omega

/-- arguments that are `uint16` values give a `uint16` value -/
theorem Tie_mathext_util_ClapU16_range (n lo hi : Nat) (hn : Util.InU 16 n) (hl : Util.InU 16 lo) (hh : Util.InU 16 hi) :
    Util.InU 16 (Gen.Ssa7.mathext_util_ClapU16 n lo hi) := by
  rw [Tie_mathext_util_ClapU16]; exact Util.InU_clamp hn hl hh

example : Gen.Ssa7.mathext_util_ClapU16 9 1 5 = 5 := by decide
-- bounds the wrong way round: the upper bound wins
example : Gen.Ssa7.mathext_util_ClapU16 0 5 1 = 1 := by decide

end Low
