import Generated.Ssa7.mathext_util_MinI8
import LowProofs.Tie7.mathext_util_L
/- Tie of `mathext/util.MinI8` (regenerated definition = specification); see `mathext_util_L.lean`. -/
namespace Low

/-- `MinI8(a, b)` (`int8`) is the smaller of its arguments, for ALL values (the generated definition
    only compares its arguments; a comparison of in-range representatives is the Go comparison of the type). -/
theorem Tie_mathext_util_MinI8 (a b : Int) : Gen.Ssa7.mathext_util_MinI8 a b = min a b := by
  unfold Gen.Ssa7.mathext_util_MinI8
  simp only [decide_eq_true_eq]
  split <;> omega

/-- arguments that are `int8` values give a `int8` value -/
theorem Tie_mathext_util_MinI8_range (a b : Int) (ha : Util.InS 8 a) (hb : Util.InS 8 b) :
    Util.InS 8 (Gen.Ssa7.mathext_util_MinI8 a b) := by
  rw [Tie_mathext_util_MinI8]; exact Util.InS_min ha hb

example : Gen.Ssa7.mathext_util_MinI8 (-3) 2 = (-3) := by decide

end Low
