import Generated.Ssa7.mathext_util_ClapI16
import LowProofs.Tie7.mathext_util_L
/- Tie of `mathext/util.ClapI16` (regenerated definition = specification); see `mathext_util_L.lean`. -/
namespace Low

/-- `ClapI16(n, min, max)` (`int16`) is the clamp of `n` into `[min, max]`, for ALL values (the generated definition only
    compares its arguments).  When `min > max` the result is `max` (`Util.clampI_gt`; the source documents nothing). -/
theorem Tie_mathext_util_ClapI16 (n lo hi : Int) : Gen.Ssa7.mathext_util_ClapI16 n lo hi = Util.clampI n lo hi := by
  unfold Gen.Ssa7.mathext_util_ClapI16 Util.clampI
  simp only [decide_eq_true_eq]
  split <;> split <;> omega

/-- arguments that are `int16` values give a `int16` value -/
theorem Tie_mathext_util_ClapI16_range (n lo hi : Int) (hn : Util.InS 16 n) (hl : Util.InS 16 lo) (hh : Util.InS 16 hi) :
    Util.InS 16 (Gen.Ssa7.mathext_util_ClapI16 n lo hi) := by
  rw [Tie_mathext_util_ClapI16]; exact Util.InS_clamp hn hl hh

example : Gen.Ssa7.mathext_util_ClapI16 9 (-1) 5 = 5 := by decide
-- bounds the wrong way round: the upper bound wins
example : Gen.Ssa7.mathext_util_ClapI16 0 5 (-1) = (-1) := by decide

end Low
