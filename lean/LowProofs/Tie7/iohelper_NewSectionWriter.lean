import Generated.Ssa7.iohelper_NewSectionWriter
import LowModel.Iohelper
/-
  Tie: the definition regenerated from the SSA form of the constructor `iohelper.NewSectionWriter`
  (`&SectionWriter{w, off, off, off + n}`) returns the tuple `(base, off, limit)` of the fields of the new struct that
  have a value in the translation; it equals the model's `newSectionWriter off n` (the state `C18_init` / `C18_refine`
  start from) for ALL `off`, `n` (the sum `off + n` wraps on 64 bits on both sides).
  The field `w` (the underlying `io.WriterAt`) and the parameter `w` are left out on both sides: the translator has
  checked that the field is assigned exactly once, with that parameter; the methods of generation 2 treat the
  underlying writer as THE external writer.
-/
namespace Low

theorem Tie_iohelper_NewSectionWriter (off n : Int) :
    Gen.Ssa7.iohelper_NewSectionWriter off n
      = ((newSectionWriter off n).base, (newSectionWriter off n).off, (newSectionWriter off n).limit) := rfl

example : Gen.Ssa7.iohelper_NewSectionWriter 5 3 = (5, 5, 8) := by decide
-- the limit wraps: a section that "ends" beyond the largest int64
example : Gen.Ssa7.iohelper_NewSectionWriter 0x7fffffffffffffff 1 = (0x7fffffffffffffff, 0x7fffffffffffffff, -0x8000000000000000) := by
  decide

end Low
