import Generated.Ssa7.mathext_util_MaxU8
import LowProofs.Tie7.mathext_util_L
/- Tie of `mathext/util.MaxU8` (regenerated definition = specification); see `mathext_util_L.lean`. -/
namespace Low

/-- `MaxU8(a, b)` (`uint8`) is the larger of its arguments, for ALL values (the generated definition
    only compares its arguments; a comparison of in-range representatives is the Go comparison of the type). -/
theorem Tie_mathext_util_MaxU8 (a b : Nat) : Gen.Ssa7.mathext_util_MaxU8 a b = max a b := by
  unfold Gen.Ssa7.mathext_util_MaxU8
  simp only [decide_eq_true_eq]
  split <;> omega

/-- arguments that are `uint8` values give a `uint8` value -/
theorem Tie_mathext_util_MaxU8_range (a b : Nat) (ha : Util.InU 8 a) (hb : Util.InU 8 b) :
    Util.InU 8 (Gen.Ssa7.mathext_util_MaxU8 a b) := by
  rw [Tie_mathext_util_MaxU8]; exact Util.InU_max ha hb

example : Gen.Ssa7.mathext_util_MaxU8 3 2 = 3 := by decide

end Low
