import Generated.Ssa7.bmtree_init
import LowModel.GoSem2
import LowProofs.Tie2.Lemmas
/-
  Tie: the definition regenerated from the SSA form of the PACKAGE INITIALISER of bmtree (`bmtree.init`, synthesized
  by go/ssa from the initialiser expressions of the package-level variables; the only such variable is the lookup
  table `idxToPath = [][]uint64{0: {…}, 1: {…}, 2: {…}, 4: {…}, 8: {…}}` of bmtree/index.go) returns exactly the
  table that the vocabulary `GoSem2.tblIdxToPath` (and through it `Tie_bmtree_IndexToPath`, C05) assumes:
  9 rows, row `i` is `idxToPathRow i` of `LowModel/Bmtree/Index.lean` (rows 3, 5, 6, 7 are nil).
  The translator has checked (tools/ssa2lean7/init7.go) that nothing else in the program writes `idxToPath`.
  No loop, hence no fuel; the equation is closed and evaluated by the kernel.
-/
namespace Low
open Low.GoSem

/-- the whole table: 9 rows -/
def idxToPathTable : List (List Nat) := (List.range 9).map idxToPathRow

theorem Tie_bmtree_init : Gen.Ssa7.bmtree_init = some idxToPathTable := by decide +kernel

/-- `idxToPath[i][j]` read from the table the initialiser built, with Go's two bounds checks, IS the vocabulary
    function, for all `i`, `j` (in range or not). -/
theorem Tie_bmtree_idxToPath_read (i j : Int) :
    Gen.Ssa7.bmtree_init.bind (fun T => (index T i).bind (fun row => index row j)) = GoSem2.tblIdxToPath i j := by
  rw [Tie_bmtree_init, Option.bind_some]
  unfold GoSem2.tblIdxToPath
  by_cases h : i < 0 ∨ 9 ≤ i
  · rw [if_pos h]
    rcases h with h | h
    · rw [TieL.index_neg _ h]; rfl
    · obtain ⟨k, rfl⟩ : ∃ k : Nat, i = (k : Int) := ⟨i.toNat, by omega⟩
      rw [TieL.index_ofNat]
      have : idxToPathTable[k]? = none := by
        rw [List.getElem?_eq_none_iff]; simp [idxToPathTable]; omega
      rw [this]; rfl
  · rw [if_neg h]
    obtain ⟨k, rfl⟩ : ∃ k : Nat, i = (k : Int) := ⟨i.toNat, by omega⟩
    have hk : k < 9 := by omega
    rw [TieL.index_ofNat]
    have : idxToPathTable[k]? = some (idxToPathRow k) := by
      simp [idxToPathTable, hk]
    rw [this, Option.bind_some, Int.toNat_natCast]

example : Gen.Ssa7.bmtree_init.bind (fun T => (index T 8).bind (fun row => index row 14)) = some 0x700000007 := by
  decide +kernel
example : GoSem2.tblIdxToPath 3 0 = none := by decide
example : GoSem2.tblIdxToPath 9 0 = none := by decide

end Low
