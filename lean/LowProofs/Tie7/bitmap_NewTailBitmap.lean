import Generated.Ssa7.bitmap_NewTailBitmap
import LowModel.Bitmap.Tail
import LowProofs.Tie3.Lemmas
/-
  Tie: the definition regenerated from the SSA form of the constructor `bitmap.NewTailBitmap`
  (`&TailBitmap{Offset: offset, reclaimed: offset, Words: make([]uint64, 0, reclaimThreshold>>6)}`) returns the tuple
  of the fields of the new struct in declaration order, `(Offset, Words, reclaimed)`; it equals the model's
  `newTailBitmap offset` (the state every C15 history starts from).  The package-level variable `reclaimThreshold`
  is an argument of the generated definition, as in `Tie_bitmap_TailBitmap_Compact`.
-/
namespace Low
open Low.GoSem Low.GoSem3 Low.TieL Low.Tie3L

private theorem shrI64_6 (x : Int) : shrI64 x 6 = x / 64 := by
  rw [shrI64, Int.shiftRight_eq_div_pow]; rfl

/-- Domain: every `offset`; `reclaimThreshold ≥ 0` (it is `65536` unless the `verif` build hook changes it).
    No panic; the result is the model's initial state. -/
theorem Tie_bitmap_NewTailBitmap (offset thr : Int) (hthr : 0 ≤ thr) :
    Gen.Ssa7.bitmap_NewTailBitmap offset thr
      = some ((newTailBitmap offset).offset, (newTailBitmap offset).words, (newTailBitmap offset).reclaimed) := by
  rw [Gen.Ssa7.bitmap_NewTailBitmap]
  have h : (0 : Int) ≤ shrI64 thr 6 := by rw [shrI64_6]; omega
  simp only [makeSliceCap, Int.le_refl, h, and_self, ↓reduceIte, Option.bind_some, newTailBitmap]
  rfl

/-- OUTSIDE the domain: with a negative `reclaimThreshold` the constructor panics (`make` with a negative capacity). -/
theorem Tie_bitmap_NewTailBitmap_neg (offset thr : Int) (hthr : thr < 0) :
    Gen.Ssa7.bitmap_NewTailBitmap offset thr = none := by
  rw [Gen.Ssa7.bitmap_NewTailBitmap]
  have h' : ¬ ((0 : Int) ≤ 0 ∧ (0 : Int) ≤ shrI64 thr 6) := by rw [shrI64_6]; omega
  simp only [makeSliceCap, h', ↓reduceIte, Option.bind_none]

example : Gen.Ssa7.bitmap_NewTailBitmap 128 65536 = some (128, [], 128) := by decide
example : Gen.Ssa7.bitmap_NewTailBitmap 128 (-64) = none := by decide

end Low
