import Generated.Ssa7.bitword_newBW
import LowModel.Bitword
/-
  Tie: the definition regenerated from the SSA form of the constructor `bitword.newBW`
  (`&bitWord{width: n, byteCap: 8 / n, wordMask: (1 << uint(n)) - 1}` converted to `Interface`) returns the tuple
  `(width, byteCap, wordMask)` of the fields of the new struct; for the four widths of the package it is
  `(n, 8/n, bwWordMask n)` — exactly the instantiation of the receiver fields under which the ties of
  `FromStr`, `ToStr`, `Get`, `FirstDiff` (generations 2 and 3) are stated.
-/
namespace Low

/-- Domain: `n ∈ {1,2,4,8}` (the widths of `bitword.BitWord`, property C08). -/
theorem Tie_bitword_newBW (n : Nat) (hn : n = 1 ∨ n = 2 ∨ n = 4 ∨ n = 8) :
    Gen.Ssa7.bitword_newBW (n : Int) = some ((n : Int), ((8 / n : Nat) : Int), bwWordMask n) := by
  rcases hn with h | h | h | h <;> subst h <;> decide

/-- OUTSIDE the domain: `newBW(0)` panics (integer division by zero). -/
theorem Tie_bitword_newBW_zero : Gen.Ssa7.bitword_newBW 0 = none := by decide

example : Gen.Ssa7.bitword_newBW 2 = some (2, 4, 3) := by decide
-- a width that does not divide 8 is accepted by the code: byteCap = 2, mask = 7 (not a width of the package)
example : Gen.Ssa7.bitword_newBW 3 = some (3, 2, 7) := by decide

end Low
