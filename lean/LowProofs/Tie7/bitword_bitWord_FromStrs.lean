import Generated.Ssa7.bitword_bitWord_FromStrs
import LowModel.Bitword
import LowProofs.Tie3.bitword_bitWord_FromStr
/-
  Tie: the definition regenerated from the SSA form of `(*bitword.bitWord).FromStrs` (a loop that fills a slice of
  slices, `rst[i] = w.FromStr(s)`, each element the fresh result of the regenerated `FromStr` of generation 3) equals
  the element-wise model `strs.map (bwFromStr n)` (property C08: "FromStrs/ToStrs apply the conversions element-wise").
  The receiver fields are instantiated as `newBW(n)` stores them (`Tie_bitword_newBW`).
-/
namespace Low
open Low.GoSem Low.GoSem3 Low.TieL Low.Tie2L Low.Tie3L

theorem FromStrs_loop (fuel n : Nat) (strs : List (List Nat)) (hn : n = 1 ∨ n = 2 ∨ n = 4 ∨ n = 8)
    (hlen : ∀ s ∈ strs, s.length < 2^32) (hf : ∀ s ∈ strs, s.length + 9 ≤ fuel) (hN : strs.length < 2^62) :
    ∀ (k i gas : Nat) (buf : List (List Nat)), i + k = strs.length → k + 1 ≤ gas → buf.length = strs.length →
      Gen.Ssa7.bitword_bitWord_FromStrs_loop1 fuel (n : Int) ((8 / n : Nat) : Int) (bwWordMask n) strs (strs.length : Int)
          gas ((i : Int) - 1) buf
        = some (buf.take i ++ (strs.drop i).map (bwFromStr n)) := by
  intro k
  induction k with
  | zero =>
    intro i gas buf hik hg hb
    obtain ⟨g, rfl⟩ : ∃ g, gas = g + 1 := ⟨gas - 1, by omega⟩
    have hi : i = strs.length := by omega
    have e : addI64 ((i : Int) - 1) 1 = (i : Int) := by
      unfold addI64; rw [show (i : Int) - 1 + 1 = (i : Int) by omega]; exact wrap64_ofNat (by omega)
    rw [Gen.Ssa7.bitword_bitWord_FromStrs_loop1]
    simp only [e]
    have hlt : ¬ ((i : Int) < (strs.length : Int)) := by omega
    simp only [hlt, decide_false, Bool.false_eq_true, ↓reduceIte]
    rw [hi, List.drop_length, List.map_nil, List.append_nil, List.take_of_length_le (by omega)]
  | succ k ihk =>
    intro i gas buf hik hg hb
    obtain ⟨g, rfl⟩ : ∃ g, gas = g + 1 := ⟨gas - 1, by omega⟩
    have hi : i < strs.length := by omega
    have e : addI64 ((i : Int) - 1) 1 = (i : Int) := by
      unfold addI64; rw [show (i : Int) - 1 + 1 = (i : Int) by omega]; exact wrap64_ofNat (by omega)
    have hs : strs[i]? = some strs[i] := List.getElem?_eq_getElem hi
    have hmem : strs[i] ∈ strs := List.getElem_mem hi
    have hF := Tie_bitword_bitWord_FromStr n strs[i] fuel hn (hlen _ hmem) (hf _ hmem)
    have hib : i < buf.length := by omega
    have ih := ihk (i + 1) g (buf.set i (bwFromStr n strs[i])) (by omega) (by omega) (by simpa using hb)
    have e2 : ((i + 1 : Nat) : Int) - 1 = (i : Int) := by omega
    rw [e2] at ih
    rw [Gen.Ssa7.bitword_bitWord_FromStrs_loop1]
    simp only [e]
    have hlt : ((i : Int) < (strs.length : Int)) := by omega
    simp only [hlt, decide_true, ↓reduceIte]
    rw [index_ofNat, hs, Option.bind_some, hF, Option.bind_some, setIdx_ofNat buf (bwFromStr n strs[i]) hib]
    refine Eq.trans (Option.bind_some _ _) ?_
    refine Eq.trans ih ?_
    rw [take_set_succ buf i (bwFromStr n strs[i]) hib, List.append_assoc]
    have hd : strs.drop i = strs[i] :: strs.drop (i + 1) := (List.getElem_cons_drop hi).symm
    rw [hd, List.map_cons, List.singleton_append]

/-- Domain: `n ∈ {1,2,4,8}`, receiver fields as `newBW(n)` stores them; every string shorter than `2^32` bytes (the
    domain of `Tie_bitword_bitWord_FromStr`), fewer than `2^62` strings.  Fuel: `fuel ≥ len(strs) + 1` and
    `fuel ≥ len(s) + 9` for every string.  The Go function cannot panic on this domain. -/
theorem Tie_bitword_bitWord_FromStrs (n : Nat) (strs : List (List Nat)) (fuel : Nat) (hn : n = 1 ∨ n = 2 ∨ n = 4 ∨ n = 8)
    (hlen : ∀ s ∈ strs, s.length < 2^32) (hN : strs.length < 2^62) (hfuel1 : strs.length + 1 ≤ fuel)
    (hfuel2 : ∀ s ∈ strs, s.length + 9 ≤ fuel) :
    Gen.Ssa7.bitword_bitWord_FromStrs fuel (n : Int) ((8 / n : Nat) : Int) (bwWordMask n) strs
      = some (strs.map (bwFromStr n)) := by
  rw [Gen.Ssa7.bitword_bitWord_FromStrs]
  simp only [len_eq, makeSlice_ofNat, Option.bind_some]
  have h := FromStrs_loop fuel n strs hn hlen hfuel2 hN strs.length 0 fuel (List.replicate strs.length []) (by omega)
    (by omega) (by simp)
  simpa using h

example : Gen.Ssa7.bitword_bitWord_FromStrs 11 2 4 3 [[0x1b], [], [0xe4, 0xff]] = some [[0, 1, 2, 3], [], [3, 2, 1, 0, 3, 3, 3, 3]] := by
  decide +kernel
example : Gen.Ssa7.bitword_bitWord_FromStrs 3 2 4 3 [[0x1b], [], [0xe4, 0xff]] = none := by decide +kernel

end Low
