/-
  Specification vocabulary for the ties of package `mathext/util` (30 loop-free functions `Min*`, `Max*`, `Clap*` on
  the ten Go integer types).  The package has no hand-written model in `LowModel` and no property in
  `properties.jsonl`; the specification is stated here, next to the ties, in terms of Lean's own `min` / `max`:

      MinT(a, b)  = min a b            MaxT(a, b) = max a b            ClapT(n, lo, hi) = min (max n lo) hi

  on the mathematical values (`Int` for the signed types, `Nat` for the unsigned ones).  The generated definitions
  contain only comparisons of the arguments, so the equations hold for ALL values, in particular for every value of
  the Go type; `InS w` / `InU w` (the range of a `w`-bit type) occur only in the closure statements
  "arguments in range ⇒ result in range".

  `Clap` ("clamp") with `lo > hi`: the source documents nothing; the code returns `hi` for every `n`
  (`clamp_gt`): first `n` is raised to `lo`, then — `lo > hi` — lowered to `hi`.  `min (max n lo) hi` says the same.
-/
set_option linter.unusedVariables false
namespace Low.Util

/-- the values of a signed Go integer type of `w` bits -/
def InS (w : Nat) (x : Int) : Prop := -(2 : Int) ^ (w - 1) ≤ x ∧ x < (2 : Int) ^ (w - 1)
/-- the values of an unsigned Go integer type of `w` bits -/
def InU (w : Nat) (x : Nat) : Prop := x < 2 ^ w

def clampI (n lo hi : Int) : Int := min (max n lo) hi
def clampU (n lo hi : Nat) : Nat := min (max n lo) hi

theorem clampI_mem (n lo hi : Int) (h : lo ≤ hi) : lo ≤ clampI n lo hi ∧ clampI n lo hi ≤ hi := by
  unfold clampI; omega
theorem clampI_id (n lo hi : Int) (h1 : lo ≤ n) (h2 : n ≤ hi) : clampI n lo hi = n := by unfold clampI; omega
/-- bounds the wrong way round: the upper bound wins -/
theorem clampI_gt (n lo hi : Int) (h : hi < lo) : clampI n lo hi = hi := by unfold clampI; omega
theorem clampU_mem (n lo hi : Nat) (h : lo ≤ hi) : lo ≤ clampU n lo hi ∧ clampU n lo hi ≤ hi := by
  unfold clampU; omega
theorem clampU_id (n lo hi : Nat) (h1 : lo ≤ n) (h2 : n ≤ hi) : clampU n lo hi = n := by unfold clampU; omega
theorem clampU_gt (n lo hi : Nat) (h : hi < lo) : clampU n lo hi = hi := by unfold clampU; omega

theorem InS_min {w : Nat} {a b : Int} (ha : InS w a) (hb : InS w b) : InS w (min a b) := by
  unfold InS at *; omega
theorem InS_max {w : Nat} {a b : Int} (ha : InS w a) (hb : InS w b) : InS w (max a b) := by
  unfold InS at *; omega
theorem InS_clamp {w : Nat} {n lo hi : Int} (hn : InS w n) (hl : InS w lo) (hh : InS w hi) : InS w (clampI n lo hi) := by
  unfold InS clampI at *; omega
theorem InU_min {w : Nat} {a b : Nat} (ha : InU w a) (hb : InU w b) : InU w (min a b) := by
  unfold InU at *; omega
theorem InU_max {w : Nat} {a b : Nat} (ha : InU w a) (hb : InU w b) : InU w (max a b) := by
  unfold InU at *; omega
theorem InU_clamp {w : Nat} {n lo hi : Nat} (hn : InU w n) (hl : InU w lo) (hh : InU w hi) : InU w (clampU n lo hi) := by
  unfold InU clampU at *; omega

end Low.Util
