import Generated.Ssa7.mathext_util_MinI64
import LowProofs.Tie7.mathext_util_L
/- Tie of `mathext/util.MinI64` (regenerated definition = specification); see `mathext_util_L.lean`. -/
namespace Low

/-- `MinI64(a, b)` (`int64`) is the smaller of its arguments, for ALL values (the generated definition
    only compares its arguments; a comparison of in-range representatives is the Go comparison of the type). -/
theorem Tie_mathext_util_MinI64 (a b : Int) : Gen.Ssa7.mathext_util_MinI64 a b = min a b := by
  unfold Gen.Ssa7.mathext_util_MinI64
  simp only [decide_eq_true_eq]
  split <;> omega

/-- arguments that are `int64` values give a `int64` value -/
theorem Tie_mathext_util_MinI64_range (a b : Int) (ha : Util.InS 64 a) (hb : Util.InS 64 b) :
    Util.InS 64 (Gen.Ssa7.mathext_util_MinI64 a b) := by
  rw [Tie_mathext_util_MinI64]; exact Util.InS_min ha hb

example : Gen.Ssa7.mathext_util_MinI64 (-3) 2 = (-3) := by decide

end Low
