import Generated.Ssa9.pbcmpl_header_Unmarshal
import LowProofs.Tie5.Oracles
/-
  Tie: the definition regenerated from the SSA form of `(*pbcmpl.header).Unmarshal` (`r := bytes.NewReader(buf); return
  binary.Read(r, <littleEndian>, h)`, receiver struct `{[16]uint8; uint64; uint64}`: ONE vocabulary function,
  `GoSem9.binaryReadHeaderLE`) equals what generation 5 ASSUMED of the oracle `protoUnmarshalHeader` (`Tie5.X`:
  `hdrOf b`, never an error) — on buffers of at least 32 bytes.

  Outside: for `len(buf) < 32` the Go code returns `io.EOF` / `io.ErrUnexpectedEOF` and leaves `*h` alone
  (`Tie_pbcmpl_header_Unmarshal_short`), while the oracle of generation 5 answers `(hdrOf b, nil)` for every `b`.  This is
  not inside a property's domain: the only caller, `ReadHeader`, passes the buffer `make([]byte, fixedSize)` that
  `io.ReadFull` filled completely — 32 bytes (`fixedSize` is instantiated with 32 in the generation-5 ties).
-/
namespace Low
open Low.GoSem5

theorem GoSem9_unleBytes : ∀ (l : List Nat), GoSem9.unleBytes l = unle l
  | [] => rfl
  | b :: r => by simp only [GoSem9.unleBytes, unle, GoSem9_unleBytes r]

/-- Domain: `32 ≤ len(buf)`.  Whatever the receiver held before (`h0`), the new contents are `hdrOf buf` (the first 16
    bytes, then two little-endian uint64) and the error is nil. -/
theorem Tie_pbcmpl_header_Unmarshal (h0 : Header) (b : List Nat) (hb : 32 ≤ b.length) :
    Gen.Ssa9.pbcmpl_header_Unmarshal (h_Version := h0.1) (h_HeaderSize := h0.2.1) (h_BodySize := h0.2.2) b = some (Err.nil, Tie5.hdrOf b) := by
  unfold Gen.Ssa9.pbcmpl_header_Unmarshal GoSem9.binaryReadHeaderLE Tie5.hdrOf
  simp only [hb, ↓reduceIte, GoSem9_unleBytes]

/-- the oracle field of `Tie5.X` that stands for `proto.Unmarshal(b, h)` answers exactly what the regenerated
    `(*header).Unmarshal` returns (new contents of `*h`, error), and leaves the world alone -/
theorem Tie_pbcmpl_header_Unmarshal_oracle (w : Tie5.World) (h0 : Header) (b : List Nat) (hb : 32 ≤ b.length) :
    (Gen.Ssa9.pbcmpl_header_Unmarshal (h_Version := h0.1) (h_HeaderSize := h0.2.1) (h_BodySize := h0.2.2) b).map (fun r => ((r.2, r.1), w))
      = some (Tie5.X.protoUnmarshalHeader w b h0) := by
  rw [Tie_pbcmpl_header_Unmarshal h0 b hb]; rfl

/-- fewer than 32 bytes: an error (`io.EOF` for no byte at all, else `io.ErrUnexpectedEOF`), `*h` unchanged -/
theorem Tie_pbcmpl_header_Unmarshal_short (h0 : Header) (b : List Nat) (hb : b.length < 32) :
    Gen.Ssa9.pbcmpl_header_Unmarshal (h_Version := h0.1) (h_HeaderSize := h0.2.1) (h_BodySize := h0.2.2) b
      = some (if b.length = 0 then Err.var "io.EOF" else Err.var "io.ErrUnexpectedEOF", h0) := by
  unfold Gen.Ssa9.pbcmpl_header_Unmarshal GoSem9.binaryReadHeaderLE
  have : ¬ 32 ≤ b.length := by omega
  by_cases h : b.length = 0 <;> simp [this, h]

example : Gen.Ssa9.pbcmpl_header_Unmarshal [] 0 0
    ([49, 46, 48, 46, 48, 0,0,0,0,0,0,0,0,0,0,0, 32,0,0,0,0,0,0,0, 2,1,0,0,0,0,0,0] ++ [7, 7]) =
    some (Err.nil, ([49, 46, 48, 46, 48, 0,0,0,0,0,0,0,0,0,0,0], 32, 0x0102)) := by decide
example : Gen.Ssa9.pbcmpl_header_Unmarshal [1] 2 3 [1, 2, 3] = some (Err.var "io.ErrUnexpectedEOF", ([1], 2, 3)) := by decide
example : Gen.Ssa9.pbcmpl_header_Unmarshal [1] 2 3 [] = some (Err.var "io.EOF", ([1], 2, 3)) := by decide

end Low
