import Generated.Ssa9.bitstr_StrCmpUpto
import LowModel.Bitstr
import LowProofs.Tie2.bitstr_CmpUpto
/-
  Tie: the definition regenerated from the SSA form of `bitstr.StrCmpUpto` equals the hand-written model
  `bsStrCmpUpto`.

  The Go function views the bytes of the string `a` as a `[]byte` WITHOUT copying: it fills the three words of the
  slice variable `bs` field by field through `*reflect.SliceHeader` (`Data` from the string's header, `Len = len(a)`,
  `Cap = len(a)`) and calls `CmpUpto(bs, b)`.  tools/ssa2lean9 (unsafe9.go) translates exactly this idiom, after
  checking on the SSA form that all three header fields are assigned exactly once with exactly these values before
  `bs` is read and that `bs` is afterwards only read: a load of `bs` is then the byte list of `a`.  Any other shape
  (the `Cap` field left out, `Len = len(a) - 1`, the whole string header reinterpreted as a slice header — defect D5 —,
  a write through `bs`, `bs` escaping) is refused, so the file `Generated/Ssa9/bitstr_StrCmpUpto.lean` then contains no
  definition and this tie does not compile.  What remains in the generated definition is the data flow: WHICH
  function is called (the regenerated `CmpUpto`), with WHICH arguments in WHICH order, and what is returned.
-/
namespace Low

/-- the generated `StrCmpUpto` is the generated `CmpUpto` on the string's bytes (no hypothesis, by unfolding) -/
theorem Tie_bitstr_StrCmpUpto_gen (a b : List Nat) (fuel : Nat) :
    Gen.Ssa9.bitstr_StrCmpUpto fuel a b = Gen.Ssa2.bitstr_CmpUpto fuel a b := by
  show (Gen.Ssa2.bitstr_CmpUpto fuel a b).bind (fun t16 => some t16) = _
  cases Gen.Ssa2.bitstr_CmpUpto fuel a b <;> rfl

/-- Domain: that of `Tie_bitstr_CmpUpto` — `len(b) < 2^63` (a Go length always fits an `int`), every `fuel ≥ 9`; no
    hypothesis on the string `a` (its bytes are the list `a`; a Go string holds bytes, the model compares naturals).
    Where the Go function panics (`len(b) = 0`, …) both sides are `none`. -/
theorem Tie_bitstr_StrCmpUpto (a b : List Nat) (fuel : Nat) (hlb : b.length < 2^63) (hfuel : 9 ≤ fuel) :
    Gen.Ssa9.bitstr_StrCmpUpto fuel a b = bsStrCmpUpto a b := by
  rw [Tie_bitstr_StrCmpUpto_gen, Tie_bitstr_CmpUpto a b fuel hlb hfuel]
  rfl

example : Gen.Ssa9.bitstr_StrCmpUpto 9 [0x61, 0x70] [0x61, 0x60, 0xf0] = some 1 := by decide
example : Gen.Ssa9.bitstr_StrCmpUpto 9 [1, 2, 0xab, 7] [1, 2, 0xa0, 0xf0] = some 0 := by decide
example : Gen.Ssa9.bitstr_StrCmpUpto 9 [1, 2] [1, 2, 0xa0, 0xf0] = some (-1) := by decide
example : Gen.Ssa9.bitstr_StrCmpUpto 9 [1, 2, 0xab] [] = none := by decide
example : bsStrCmpUpto [1, 2, 0xab, 7] [1, 2, 0xa0, 0xf0] = some 0 := by decide

end Low
