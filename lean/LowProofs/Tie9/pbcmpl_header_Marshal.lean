import Generated.Ssa9.pbcmpl_header_Marshal
import LowProofs.Tie5.Oracles
/-
  Tie: the definition regenerated from the SSA form of `(*pbcmpl.header).Marshal` — the translator (tools/ssa2lean9,
  binary9.go) checks that the whole body is `b := &bytes.Buffer{}; err := binary.Write(b, <littleEndian>, h); return
  b.Bytes(), err` for a receiver struct `{[16]uint8; uint64; uint64}` and emits the ONE vocabulary function
  `GoSem9.binaryWriteHeaderLE` — equals what generation 5 ASSUMED of the oracle `protoMarshalHeader`
  (`Tie5.X`, `LowProofs/Tie5/Oracles.lean`: `hdrBytes h`, never an error).  The 32-byte little-endian layout is thereby
  no longer a contract stated in the tie's oracle instantiation: it is a theorem about regenerated code plus the
  vocabulary function.  What remains assumed of `proto.Marshal(h)`: golang/protobuf calls the message's own `Marshal`
  method when it has one (`newMarshaler`), and `h` is not nil.
-/
namespace Low
open Low.GoSem5

theorem GoSem9_leBytes8 (x : Nat) : GoSem9.leBytes 8 x = le64 x := rfl

theorem GoSem9_arrBytes16 (l : List Nat) (h : l.length = 16) : GoSem9.arrBytes 16 l = l := by
  unfold GoSem9.arrBytes
  rw [List.take_append_of_le_length (by omega), List.take_of_length_le (by omega)]

/-- The receiver's fields are passed BY NAME (`h_Version`, `h_HeaderSize`, `h_BodySize` are the names the translator derives
    from the struct's field names): reordering the fields of the struct changes the wire layout and breaks this tie.
    Domain: the representation invariant of a `*header` (generation 5): the `[16]byte` is a list of 16 entries.
    The generated definition never panics and never reports an error. -/
theorem Tie_pbcmpl_header_Marshal (h : Header) (hv : h.1.length = 16) :
    Gen.Ssa9.pbcmpl_header_Marshal (h_Version := h.1) (h_HeaderSize := h.2.1) (h_BodySize := h.2.2) = some (Tie5.hdrBytes h, Err.nil) := by
  unfold Gen.Ssa9.pbcmpl_header_Marshal GoSem9.binaryWriteHeaderLE Tie5.hdrBytes
  rw [GoSem9_arrBytes16 _ hv, GoSem9_leBytes8, GoSem9_leBytes8]

/-- the oracle field of `Tie5.X` that stands for `proto.Marshal(h)` answers exactly what the regenerated
    `(*header).Marshal` returns, and leaves the world alone -/
theorem Tie_pbcmpl_header_Marshal_oracle (w : Tie5.World) (h : Header) (hv : h.1.length = 16) :
    (Gen.Ssa9.pbcmpl_header_Marshal (h_Version := h.1) (h_HeaderSize := h.2.1) (h_BodySize := h.2.2)).map (fun r => (r, w)) = some (Tie5.X.protoMarshalHeader w h) := by
  rw [Tie_pbcmpl_header_Marshal h hv]; rfl

/-- the result has 32 bytes (`fixedSize`) -/
theorem Tie_pbcmpl_header_Marshal_length (ver : List Nat) (hs bs : Nat) :
    ∃ r, Gen.Ssa9.pbcmpl_header_Marshal ver hs bs = some (r, Err.nil) ∧ r.length = 32 := by
  refine ⟨_, rfl, ?_⟩
  simp [GoSem9.arrBytes, GoSem9.leBytes]

example : Gen.Ssa9.pbcmpl_header_Marshal ([49, 46, 48, 46, 48] ++ List.replicate 11 0) 32 0x0102 =
    some ([49, 46, 48, 46, 48, 0,0,0,0,0,0,0,0,0,0,0, 32,0,0,0,0,0,0,0, 2,1,0,0,0,0,0,0], Err.nil) := by decide

end Low
