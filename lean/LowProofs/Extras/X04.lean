import LowProofs.Extras.X04Lemmas
/-
  X04 -- size.stat (the lines `size.Stat` prints): panics only where `sizeof` does, the header carries sizeof(v),
  `depth` cuts lines off by indentation (and never changes one), a negative depth never cuts, `maxItem` limits the
  elements of slices, arrays and maps but not struct fields, nil pointers / nil interfaces / unfound map entries.
-/
namespace Low
open Low.Extras

/-- []struct{ P *int32; S string }{{nil, "ab"}, {new(int32), ""}} with field names "P", "S" -/
def X04_ex : SV :=
  .slice [.struct [([80], .ptr none), ([83], .str 2)], .struct [([80], .ptr (some (.scalar 4))), ([83], .str 0)]]

/-- panics exactly when sizeof panics on the whole value (an unsupported kind anywhere), whatever depth and maxItem -/
theorem X04_panic (v : SV) (d m : Int) : stat v d m = none ↔ sizeOf v.erase = none := by
  constructor
  · intro h
    cases hs : sizeOf v.erase with
    | none => rfl
    | some sz =>
      have := X04L.stat_isSome v d m (by rw [hs]; rfl)
      rw [h] at this; cases this
  · intro h; rw [X04L.stat_eq, h]; rfl

example : stat (.slice [.scalar 4, .ptr (some .unsupported)]) 1 0 = none := by decide +kernel
example : stat X04_ex 5 1 ≠ none := by decide +kernel

/-- first line: no indentation, no label, the number is sizeof(v) (the number C20_stat speaks about) -/
theorem X04_head (v : SV) (d m : Int) (ls) (h : stat v d m = some ls) :
    ∃ sz, sizeOf v.erase = some sz ∧ ls.head? = some ⟨0, none, some sz⟩ := by
  obtain ⟨sz, subs, hs, rfl, _, _⟩ := X04L.stat_shape v d m ls h
  exact ⟨sz, hs, rfl⟩

example : ∃ ls, stat X04_ex 2 7 = some ls ∧ ls.head? = some ⟨0, none, some 78⟩ := by decide +kernel

/-- depth 0: exactly the header -/
theorem X04_depth0 (v : SV) (m : Int) : stat v 0 m = (sizeOf v.erase).map fun sz => [⟨0, none, some sz⟩] := by
  rw [X04L.stat_eq]; cases sizeOf v.erase <;> rfl

example : stat X04_ex 0 7 = some [⟨0, none, some 78⟩] := by decide +kernel

/-- a negative depth never cuts: all negative depths agree -/
theorem X04_neg_depth (v : SV) (d m : Int) (h : d < 0) : stat v d m = stat v (-1) m :=
  X04L.stat_neg v d m h

example : stat X04_ex (-5) 7 = stat X04_ex (-1) 7 ∧ (stat X04_ex (-1) 7).map List.length = some 8 := by decide +kernel

/-- depth d ≥ 0 shows no line deeper than d … -/
theorem X04_indent_le (v : SV) (d m : Int) (hd : 0 ≤ d) (ls) (h : stat v d m = some ls) :
    ∀ l ∈ ls, (l.indent : Int) ≤ d :=
  X04L.stat_le v d m hd ls h

example : (stat X04_ex 2 7).map (fun ls => ls.map (·.indent)) = some [0, 1, 2, 2, 1, 2, 2] := by decide +kernel

/-- … and exactly the lines of the unlimited output whose indentation is at most d (the cut-off removes lines, it
    never changes one) -/
theorem X04_depth_filter (v : SV) (d m : Int) (hd : 0 ≤ d) :
    stat v d m = (stat v (-1) m).map fun ls => ls.filter fun l => decide ((l.indent : Int) ≤ d) :=
  X04L.stat_filter v d m hd

example : (stat X04_ex 2 7).map List.length = some 7 ∧ (stat X04_ex (-1) 7).map List.length = some 8 := by
  decide +kernel

/-- only the header has indentation 0 -/
theorem X04_indent_pos (v : SV) (d m : Int) (ls) (h : stat v d m = some ls) : ∀ l ∈ ls.tail, 0 < l.indent := by
  obtain ⟨s, t, rfl, ht⟩ := X04L.stat_headed v d m ls h
  exact ht

example : ∃ ls, stat X04_ex 2 7 = some ls ∧ ls.tail.length = 6 ∧ ∀ l ∈ ls.tail, 0 < l.indent := by decide +kernel

/-- maxItem: a slice shows min(len, maxItem) elements (the lines at indentation 1), labelled 0,1,2,… in order;
    maxItem ≤ 0 shows none (`m.toNat = 0`) -/
theorem X04_maxItem_slice (es : List SV) (d m : Int) (hd : d ≠ 0) (ls) (h : stat (.slice es) d m = some ls) :
    (ls.filter fun l => decide (l.indent = 1)).map (·.label)
      = (List.range (min es.length m.toNat)).map fun i => some (dec i) := by
  obtain ⟨subs, hk, hl⟩ := X04L.labelsAt_stat _ d m hd ls h
  have := X04L.elems_labels m es 0 (d-1) subs hk
  rw [List.range_eq_range']
  exact hl.trans this

example : (stat X04_ex 1 1).map (fun ls => (ls.filter fun l => decide (l.indent = 1)).map (·.label)) = some [some [48]] := by
  decide +kernel
example : (stat X04_ex 1 (-3)).map (fun ls => (ls.filter fun l => decide (l.indent = 1)).map (·.label)) = some [] := by
  decide +kernel

/-- the same for an array -/
theorem X04_maxItem_arr (es : List SV) (d m : Int) (hd : d ≠ 0) (ls) (h : stat (.arr es) d m = some ls) :
    (ls.filter fun l => decide (l.indent = 1)).map (·.label)
      = (List.range (min es.length m.toNat)).map fun i => some (dec i) := by
  obtain ⟨subs, hk, hl⟩ := X04L.labelsAt_stat _ d m hd ls h
  have := X04L.elems_labels m es 0 (d-1) subs hk
  rw [List.range_eq_range']
  exact hl.trans this

example : (stat (.arr [.scalar 1, .str 3, .scalar 2]) (-1) 2).map
    (fun ls => (ls.filter fun l => decide (l.indent = 1)).map (·.label)) = some [some [48], some [49]] := by
  decide +kernel

/-- stronger: the element lines of a slice in full -- line `i` (of the first min(len, maxItem)) is at indentation 1,
    labelled `i`, and its number is sizeof(es[i]) -/
theorem X04_elem_lines (es : List SV) (d m : Int) (hd : d ≠ 0) (ls) (h : stat (.slice es) d m = some ls) :
    ls.filter (fun l => decide (l.indent = 1))
      = ((es.take m.toNat).zipIdx).map fun p => ⟨1, some (dec p.2), sizeOf p.1.erase⟩ := by
  obtain ⟨subs, hk, hl⟩ := X04L.lines1_stat _ d m hd ls h
  rw [hl, X04L.elems_lines m es 0 (d-1) subs hk, List.map_map]; rfl

/-- the same for an array -/
theorem X04_elem_lines_arr (es : List SV) (d m : Int) (hd : d ≠ 0) (ls) (h : stat (.arr es) d m = some ls) :
    ls.filter (fun l => decide (l.indent = 1))
      = ((es.take m.toNat).zipIdx).map fun p => ⟨1, some (dec p.2), sizeOf p.1.erase⟩ := by
  obtain ⟨subs, hk, hl⟩ := X04L.lines1_stat _ d m hd ls h
  rw [hl, X04L.elems_lines m es 0 (d-1) subs hk, List.map_map]; rfl

example : (stat X04_ex (-1) 7).map (fun ls => ls.filter fun l => decide (l.indent = 1))
    = some [⟨1, some [48], some 26⟩, ⟨1, some [49], some 28⟩] := by decide +kernel

/-- a map shows its first min(len, maxItem) entries (in `MapKeys` order), each labelled with its key -/
theorem X04_maxItem_map (ps : List (Bytes × SV × SV × Bool)) (d m : Int) (hd : d ≠ 0) (ls)
    (h : stat (.map ps) d m = some ls) :
    (ls.filter fun l => decide (l.indent = 1)).map (·.label) = (ps.take m.toNat).map fun p => some p.1 := by
  obtain ⟨subs, hk, hl⟩ := X04L.labelsAt_stat _ d m hd ls h
  exact hl.trans (X04L.entries_labels m ps 0 (d-1) subs hk)

example : (stat (.map [([97], .str 1, .scalar 4, true), ([98], .str 1, .ptr none, true), ([99], .str 1, .scalar 4, false)]) 2 2).map
    (fun ls => (ls.filter fun l => decide (l.indent = 1)).map (·.label)) = some [some [97], some [98]] := by
  decide +kernel

/-- struct fields are never cut by maxItem: one indentation-1 line per field, labelled with the field names -/
theorem X04_struct_fields (fs : List (Bytes × SV)) (d m : Int) (hd : d ≠ 0) (ls) (h : stat (.struct fs) d m = some ls) :
    (ls.filter fun l => decide (l.indent = 1)).map (·.label) = fs.map fun f => some f.1 := by
  obtain ⟨subs, hk, hl⟩ := X04L.labelsAt_stat _ d m hd ls h
  exact hl.trans (X04L.fields_labels m fs (d-1) subs hk)

example : (stat (.struct [([80], .ptr none), ([83], .str 2)]) 1 0).map
    (fun ls => (ls.filter fun l => decide (l.indent = 1)).map (·.label)) = some [some [80], some [83]] := by
  decide +kernel

/-- a nil pointer has no further line -/
theorem X04_nil_ptr (d m : Int) : stat (.ptr none) d m = some [⟨0, none, some 8⟩] := by
  rw [X04L.stat_eq, X04L.erase_ptr_nil, Option.bind_some]; split <;> rfl

example : stat (.ptr none) 3 3 = some [⟨0, none, some 8⟩] := by decide +kernel

/-- a nil interface (as a field or element) has the line `<nil>` -/
theorem X04_nil_iface (d m : Int) (hd : d ≠ 0) :
    stat (.iface none) d m = some [⟨0, none, some 16⟩, ⟨1, none, none⟩] := by
  rw [X04L.stat_eq, X04L.erase_iface_nil, Option.bind_some, if_neg hd]; rfl

example : stat (.iface none) (-1) 0 = some [⟨0, none, some 16⟩, ⟨1, none, none⟩] := by decide +kernel

/-- a map entry that MapIndex does not find (NaN key) shows `<nil>` under its label -/
theorem X04_map_notfound (lbl : Bytes) (k v : SV) (d m : Int) (hd : d ≠ 0) (hm : 0 < m) (sz : Nat)
    (h : sizeOf (SV.map [(lbl, k, v, false)]).erase = some sz) :
    stat (.map [(lbl, k, v, false)]) d m = some [⟨0, none, some sz⟩, ⟨1, some lbl, none⟩] := by
  have hm' : ((0 : Nat) : Int) < m := by omega
  rw [X04L.stat_eq, h, Option.bind_some, if_neg hd, X04L.kids, X04L.statEntries_cons, if_pos hm',
    X04L.statEntries_nil, X04L.entryLines]
  simp [X04L.setLabel_hdr, X04L.hdr, X04L.bump]

example : stat (.map [([78, 97, 78], .scalar 8, .scalar 4, false)]) 1 1
    = some [⟨0, none, some 20⟩, ⟨1, some [78, 97, 78], none⟩] := by decide +kernel

/-- every number printed on a line is sizeof of the value or of a part of it that `stat` walks into
    (`X04_Part`, defined in X04Lemmas.lean), for every depth and maxItem -/
theorem X04_sizes (v : SV) (d m : Int) (ls) (h : stat v d m = some ls) :
    ∀ l ∈ ls, ∀ n, l.size = some n → ∃ w, X04_Part w v ∧ sizeOf w.erase = some n :=
  X04L.stat_sz v d m ls h

example : (stat X04_ex (-1) 7).map (fun ls => ls.map (·.size))
    = some [some 78, some 26, some 8, some 18, some 28, some 12, some 4, some 16] := by decide +kernel
example : X04_Part (.scalar 4) X04_ex :=
  .slice (e := .struct [([80], .ptr (some (.scalar 4))), ([83], .str 0)]) (by simp)
    (.field (n := [80]) (x := .ptr (some (.scalar 4))) (by simp) (.ptr (.refl _)))

end Low
