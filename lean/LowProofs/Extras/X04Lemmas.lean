import LowModel.Extras.Stat
/-
  Helper lemmas for X04 (size.stat).  `kids v d m` is what `stat` appends below the header of `v` (before the final
  indentation loop); `stat_eq` is the one unfolding of `stat` every proof uses.
-/
namespace Low.X04L
open Low.Extras

/-- the header line -/
def hdr (sz : Nat) : StatLine := ⟨0, none, some sz⟩
/-- four more spaces -/
def bump (x : StatLine) : StatLine := { x with indent := x.indent + 1 }
/-- the lines `stat` collects below the header (`depth` already decremented) -/
def kids : SV → Int → Int → Option (List StatLine)
  | .map ps, d, m => statEntries ps 0 d m
  | .slice es, d, m => statElems es 0 d m
  | .arr es, d, m => statElems es 0 d m
  | .ptr none, _, _ => some []
  | .ptr (some p), d, m => stat p d m
  | .iface none, _, _ => some [⟨0, none, none⟩]
  | .iface (some x), d, m => stat x d m
  | .struct fs, d, m => statFields fs d m
  | _, _, _ => some []

theorem stat_eq (v : SV) (d m : Int) : stat v d m = (sizeOf v.erase).bind fun sz =>
    if d = 0 then some [hdr sz] else (kids v (d-1) m).map fun subs => hdr sz :: subs.map bump := by
  unfold stat
  cases h : sizeOf v.erase with
  | none => rfl
  | some sz =>
    simp only [Option.bind_some]
    split
    · rfl
    · rcases v with _|_|_|_|_|(_|_)|(_|_)|_|_ <;> rfl

theorem statElems_nil (i d m) : statElems [] i d m = some [] := by rw [statElems]

theorem statElems_cons (e r i d m) : statElems (e :: r) i d m =
    if (i : Int) < m then (stat e d m).bind fun a => (statElems r (i+1) d m).map fun b => setLabel (dec i) a ++ b
    else some [] := by
  rw [statElems]
  split
  · cases stat e d m <;> cases statElems r (i+1) d m <;> rfl
  · rfl

/-- what the map loop passes to `setLabel` -/
def entryLines (v : SV) (found : Bool) (d m : Int) : Option (List StatLine) :=
  if found then stat v d m else some [⟨0, none, none⟩]

theorem statEntries_nil (i d m) : statEntries [] i d m = some [] := by rw [statEntries]

theorem statEntries_cons (lbl k v f r i d m) : statEntries ((lbl, k, v, f) :: r) i d m =
    if (i : Int) < m then (entryLines v f d m).bind fun a => (statEntries r (i+1) d m).map fun b => setLabel lbl a ++ b
    else some [] := by
  rw [statEntries, entryLines]
  split
  · cases (if f = true then stat v d m else some [⟨0, none, none⟩]) <;> cases statEntries r (i+1) d m <;> rfl
  · rfl

theorem statFields_nil (d m) : statFields [] d m = some [] := by rw [statFields]

theorem statFields_cons (n v r d m) : statFields ((n, v) :: r) d m =
    (stat v d m).bind fun a => (statFields r d m).map fun b => setLabel n a ++ b := by
  rw [statFields]
  cases stat v d m <;> cases statFields r d m <;> rfl

/-! ### sizeof of the parts -/

theorem sizeOfList_cons_isSome (a : GoVal) (r) :
    (sizeOfList (a :: r)).isSome = ((sizeOf a).isSome && (sizeOfList r).isSome) := by
  rw [sizeOfList]; cases sizeOf a <;> cases sizeOfList r <;> rfl

theorem sizeOfPairs_cons_isSome (k v : GoVal) (r) :
    (sizeOfPairs ((k, v) :: r)).isSome = ((sizeOf k).isSome && (sizeOf v).isSome && (sizeOfPairs r).isSome) := by
  rw [sizeOfPairs]; cases sizeOf k <;> cases sizeOf v <;> cases sizeOfPairs r <;> rfl

theorem erase_arr (es) : sizeOf (SV.arr es).erase = sizeOfList (eraseList es) := by rw [SV.erase, sizeOf]
theorem erase_slice (es) : sizeOf (SV.slice es).erase = (sizeOfList (eraseList es)).map (· + 24) := by rw [SV.erase, sizeOf]
theorem erase_map (ps) : sizeOf (SV.map ps).erase = (sizeOfPairs (eraseEntries ps)).map (· + 8) := by rw [SV.erase, sizeOf]
theorem erase_ptr (p) : sizeOf (SV.ptr (some p)).erase = (sizeOf p.erase).map (· + 8) := by rw [SV.erase, sizeOf]
theorem erase_iface (p) : sizeOf (SV.iface (some p)).erase = (sizeOf p.erase).map (· + 16) := by rw [SV.erase, sizeOf]
theorem erase_struct (fs) : sizeOf (SV.struct fs).erase = sizeOfList (eraseFields fs) := by rw [SV.erase, sizeOf]
theorem erase_unsupported : sizeOf (SV.unsupported).erase = none := by rw [SV.erase, sizeOf]
theorem erase_ptr_nil : sizeOf (SV.ptr none).erase = some 8 := by rw [SV.erase, sizeOf]
theorem erase_iface_nil : sizeOf (SV.iface none).erase = some 16 := by rw [SV.erase, sizeOf]

/-! ### `stat` panics only where `sizeof` does -/

theorem stat_isSome_of (v : SV) (d m : Int) (h : (sizeOf v.erase).isSome) (hk : (kids v (d-1) m).isSome) :
    (stat v d m).isSome := by
  rw [stat_eq]
  obtain ⟨sz, hsz⟩ := Option.isSome_iff_exists.1 h
  obtain ⟨subs, hs⟩ := Option.isSome_iff_exists.1 hk
  rw [hsz, hs]; simp only [Option.bind_some]; split <;> rfl

mutual
theorem kids_some (m : Int) : ∀ (v : SV) (d : Int), (sizeOf v.erase).isSome → (kids v d m).isSome
  | .scalar _, _, _ => rfl
  | .str _, _, _ => rfl
  | .arr es, d, h => elems_some m es 0 d (by simpa [erase_arr] using h)
  | .slice es, d, h => elems_some m es 0 d (by simpa [erase_slice] using h)
  | .map ps, d, h => entries_some m ps 0 d (by simpa [erase_map] using h)
  | .ptr none, _, _ => rfl
  | .ptr (some p), d, h => by
    have hp : (sizeOf p.erase).isSome := by simpa [erase_ptr] using h
    exact stat_isSome_of p d m hp (kids_some m p (d-1) hp)
  | .iface none, _, _ => rfl
  | .iface (some p), d, h => by
    have hp : (sizeOf p.erase).isSome := by simpa [erase_iface] using h
    exact stat_isSome_of p d m hp (kids_some m p (d-1) hp)
  | .struct fs, d, h => fields_some m fs d (by simpa [erase_struct] using h)
  | .unsupported, _, h => by simp [erase_unsupported] at h
theorem elems_some (m : Int) : ∀ (es : List SV) (i : Nat) (d : Int),
    (sizeOfList (eraseList es)).isSome → (statElems es i d m).isSome
  | [], i, d, _ => by rw [statElems_nil]; rfl
  | e :: r, i, d, h => by
    rw [eraseList, sizeOfList_cons_isSome, Bool.and_eq_true] at h
    have h1 := stat_isSome_of e d m h.1 (kids_some m e (d-1) h.1)
    have h2 := elems_some m r (i+1) d h.2
    obtain ⟨a, ha⟩ := Option.isSome_iff_exists.1 h1
    obtain ⟨b, hb⟩ := Option.isSome_iff_exists.1 h2
    rw [statElems_cons, ha, hb]; split <;> rfl
theorem entries_some (m : Int) : ∀ (ps : List (Bytes × SV × SV × Bool)) (i : Nat) (d : Int),
    (sizeOfPairs (eraseEntries ps)).isSome → (statEntries ps i d m).isSome
  | [], i, d, _ => by rw [statEntries_nil]; rfl
  | (lbl, k, v, f) :: r, i, d, h => by
    rw [eraseEntries, sizeOfPairs_cons_isSome, Bool.and_eq_true, Bool.and_eq_true] at h
    have h1 : (entryLines v f d m).isSome := by
      rw [entryLines]; split
      · exact stat_isSome_of v d m h.1.2 (kids_some m v (d-1) h.1.2)
      · rfl
    have h2 := entries_some m r (i+1) d h.2
    obtain ⟨a, ha⟩ := Option.isSome_iff_exists.1 h1
    obtain ⟨b, hb⟩ := Option.isSome_iff_exists.1 h2
    rw [statEntries_cons, ha, hb]; split <;> rfl
theorem fields_some (m : Int) : ∀ (fs : List (Bytes × SV)) (d : Int),
    (sizeOfList (eraseFields fs)).isSome → (statFields fs d m).isSome
  | [], d, _ => by rw [statFields_nil]; rfl
  | (n, v) :: r, d, h => by
    rw [eraseFields, sizeOfList_cons_isSome, Bool.and_eq_true] at h
    have h1 := stat_isSome_of v d m h.1 (kids_some m v (d-1) h.1)
    have h2 := fields_some m r d h.2
    obtain ⟨a, ha⟩ := Option.isSome_iff_exists.1 h1
    obtain ⟨b, hb⟩ := Option.isSome_iff_exists.1 h2
    rw [statFields_cons, ha, hb]; rfl
end

theorem stat_isSome (v : SV) (d m : Int) (h : (sizeOf v.erase).isSome) : (stat v d m).isSome :=
  stat_isSome_of v d m h (kids_some m v (d-1) h)

/-! ### the shape of a result: header, then bumped lines -/

theorem stat_shape (v : SV) (d m : Int) (ls) (h : stat v d m = some ls) :
    ∃ sz subs, sizeOf v.erase = some sz ∧ ls = hdr sz :: subs.map bump ∧
      (d = 0 → subs = []) ∧ (d ≠ 0 → kids v (d-1) m = some subs) := by
  rw [stat_eq] at h
  cases hs : sizeOf v.erase with
  | none => rw [hs] at h; simp at h
  | some sz =>
    rw [hs, Option.bind_some] at h
    by_cases hd : d = 0
    · rw [if_pos hd] at h
      exact ⟨sz, [], rfl, by simpa using h.symm, fun _ => rfl, fun h' => absurd hd h'⟩
    · rw [if_neg hd] at h
      cases hk : kids v (d-1) m with
      | none => rw [hk] at h; simp at h
      | some subs =>
        rw [hk] at h
        exact ⟨sz, subs, rfl, by simpa using h.symm, fun h' => absurd h' hd, fun _ => rfl⟩

theorem bump_indent (x : StatLine) : (bump x).indent = x.indent + 1 := rfl
theorem bump_label (x : StatLine) : (bump x).label = x.label := rfl
theorem bump_size (x : StatLine) : (bump x).size = x.size := rfl

theorem setLabel_hdr (l : Bytes) (sz : Option Nat) (r : List StatLine) :
    setLabel l (⟨0, none, sz⟩ :: r) = ⟨0, some l, sz⟩ :: r := by
  simp [setLabel]

/-! ### negative depths -/

theorem stat_neg_of_kids (v : SV) (m : Int) (hk : ∀ d : Int, d < 0 → kids v d m = kids v (-1) m) :
    ∀ d : Int, d < 0 → stat v d m = stat v (-1) m := by
  intro d hd
  rw [stat_eq, stat_eq v (-1), hk (d-1) (by omega), hk (-1-1) (by omega)]
  have h1 : d ≠ 0 := by omega
  simp only [h1, if_false]; rfl

mutual
theorem kids_neg (m : Int) : ∀ (v : SV) (d : Int), d < 0 → kids v d m = kids v (-1) m
  | .scalar _, _, _ => rfl
  | .str _, _, _ => rfl
  | .arr es, d, h => elems_neg m es 0 d h
  | .slice es, d, h => elems_neg m es 0 d h
  | .map ps, d, h => entries_neg m ps 0 d h
  | .ptr none, _, _ => rfl
  | .ptr (some p), d, h => stat_neg_of_kids p m (fun d' h' => kids_neg m p d' h') d h
  | .iface none, _, _ => rfl
  | .iface (some p), d, h => stat_neg_of_kids p m (fun d' h' => kids_neg m p d' h') d h
  | .struct fs, d, h => fields_neg m fs d h
  | .unsupported, _, _ => rfl
theorem elems_neg (m : Int) : ∀ (es : List SV) (i : Nat) (d : Int), d < 0 → statElems es i d m = statElems es i (-1) m
  | [], i, d, _ => by rw [statElems_nil, statElems_nil]
  | e :: r, i, d, h => by
    rw [statElems_cons, statElems_cons, stat_neg_of_kids e m (fun d' h' => kids_neg m e d' h') d h,
      elems_neg m r (i+1) d h]
theorem entries_neg (m : Int) : ∀ (ps : List (Bytes × SV × SV × Bool)) (i : Nat) (d : Int), d < 0 →
    statEntries ps i d m = statEntries ps i (-1) m
  | [], i, d, _ => by rw [statEntries_nil, statEntries_nil]
  | (lbl, k, v, f) :: r, i, d, h => by
    rw [statEntries_cons, statEntries_cons, entryLines, entryLines,
      stat_neg_of_kids v m (fun d' h' => kids_neg m v d' h') d h, entries_neg m r (i+1) d h]
theorem fields_neg (m : Int) : ∀ (fs : List (Bytes × SV)) (d : Int), d < 0 → statFields fs d m = statFields fs (-1) m
  | [], d, _ => by rw [statFields_nil, statFields_nil]
  | (n, v) :: r, d, h => by
    rw [statFields_cons, statFields_cons, stat_neg_of_kids v m (fun d' h' => kids_neg m v d' h') d h,
      fields_neg m r d h]
end

theorem stat_neg (v : SV) (d m : Int) (h : d < 0) : stat v d m = stat v (-1) m :=
  stat_neg_of_kids v m (fun d' h' => kids_neg m v d' h') d h

/-! ### every piece handed to `setLabel` starts with an unlabelled line at indentation 0, the rest is deeper -/

def Headed (o : Option (List StatLine)) : Prop :=
  ∀ a, o = some a → ∃ s t, a = (⟨0, none, s⟩ : StatLine) :: t ∧ ∀ x ∈ t, 0 < x.indent

theorem stat_headed (v : SV) (d m : Int) : Headed (stat v d m) := by
  intro a h
  obtain ⟨sz, subs, _, rfl, _, _⟩ := stat_shape v d m a h
  refine ⟨some sz, subs.map bump, rfl, ?_⟩
  intro x hx
  obtain ⟨y, _, rfl⟩ := List.mem_map.1 hx
  rw [bump_indent]; omega

theorem entryLines_headed (v : SV) (f : Bool) (d m : Int) : Headed (entryLines v f d m) := by
  rw [entryLines]; split
  · exact stat_headed v d m
  · intro a h
    cases h
    exact ⟨none, [], rfl, by simp⟩

/-! ### depth `d ≥ 0`: no line deeper than `d` -/

def AllLe (d : Int) (o : Option (List StatLine)) : Prop :=
  ∀ ls, o = some ls → ∀ l ∈ ls, (l.indent : Int) ≤ d

theorem allLe_combine (d : Int) (lbl : Bytes) (x y : Option (List StatLine)) (hh : Headed x)
    (hx : AllLe d x) (hy : AllLe d y) :
    AllLe d (x.bind fun a => y.map fun b => setLabel lbl a ++ b) := by
  intro ls h l hl
  cases x with
  | none => simp at h
  | some a =>
    cases y with
    | none => simp at h
    | some b =>
      simp only [Option.bind_some, Option.map_some, Option.some.injEq] at h
      subst h
      obtain ⟨s, t, rfl, _⟩ := hh a rfl
      rw [setLabel_hdr, List.mem_append, List.mem_cons] at hl
      rcases hl with (rfl | hl) | hl
      · exact hx _ rfl ⟨0, none, s⟩ (by simp)
      · exact hx _ rfl l (by simp [hl])
      · exact hy _ rfl l hl

theorem stat_le_of_kids (v : SV) (m : Int) (hk : ∀ d : Int, 0 ≤ d → AllLe d (kids v d m)) :
    ∀ d : Int, 0 ≤ d → AllLe d (stat v d m) := by
  intro d hd ls h l hl
  obtain ⟨sz, subs, _, rfl, h0, h1⟩ := stat_shape v d m ls h
  rw [List.mem_cons] at hl
  rcases hl with rfl | hl
  · exact hd
  · obtain ⟨y, hy, rfl⟩ := List.mem_map.1 hl
    by_cases hd0 : d = 0
    · rw [h0 hd0] at hy; simp at hy
    · have := hk (d-1) (by omega) subs (h1 hd0) y hy
      rw [bump_indent]; omega

mutual
theorem kids_le (m : Int) : ∀ (v : SV) (d : Int), 0 ≤ d → AllLe d (kids v d m)
  | .scalar _, _, _ => by intro ls h; cases h; simp
  | .str _, _, _ => by intro ls h; cases h; simp
  | .arr es, d, h => elems_le m es 0 d h
  | .slice es, d, h => elems_le m es 0 d h
  | .map ps, d, h => entries_le m ps 0 d h
  | .ptr none, _, _ => by intro ls h; cases h; simp
  | .ptr (some p), d, h => stat_le_of_kids p m (fun d' h' => kids_le m p d' h') d h
  | .iface none, d, hd => by intro ls h; cases h; simpa using hd
  | .iface (some p), d, h => stat_le_of_kids p m (fun d' h' => kids_le m p d' h') d h
  | .struct fs, d, h => fields_le m fs d h
  | .unsupported, _, _ => by intro ls h; cases h; simp
theorem elems_le (m : Int) : ∀ (es : List SV) (i : Nat) (d : Int), 0 ≤ d → AllLe d (statElems es i d m)
  | [], i, d, _ => by rw [statElems_nil]; intro ls h; cases h; simp
  | e :: r, i, d, h => by
    rw [statElems_cons]; split
    · exact allLe_combine d _ _ _ (stat_headed e d m)
        (stat_le_of_kids e m (fun d' h' => kids_le m e d' h') d h) (elems_le m r (i+1) d h)
    · intro ls h; cases h; simp
theorem entries_le (m : Int) : ∀ (ps : List (Bytes × SV × SV × Bool)) (i : Nat) (d : Int), 0 ≤ d →
    AllLe d (statEntries ps i d m)
  | [], i, d, _ => by rw [statEntries_nil]; intro ls h; cases h; simp
  | (lbl, k, v, f) :: r, i, d, h => by
    rw [statEntries_cons]; split
    · refine allLe_combine d _ _ _ (entryLines_headed v f d m) ?_ (entries_le m r (i+1) d h)
      rw [entryLines]; split
      · exact stat_le_of_kids v m (fun d' h' => kids_le m v d' h') d h
      · intro ls h'; cases h'; simpa using h
    · intro ls h; cases h; simp
theorem fields_le (m : Int) : ∀ (fs : List (Bytes × SV)) (d : Int), 0 ≤ d → AllLe d (statFields fs d m)
  | [], d, _ => by rw [statFields_nil]; intro ls h; cases h; simp
  | (n, v) :: r, d, h => by
    rw [statFields_cons]
    exact allLe_combine d _ _ _ (stat_headed v d m)
      (stat_le_of_kids v m (fun d' h' => kids_le m v d' h') d h) (fields_le m r d h)
end

theorem stat_le (v : SV) (d m : Int) (h : 0 ≤ d) : AllLe d (stat v d m) :=
  stat_le_of_kids v m (fun d' h' => kids_le m v d' h') d h

/-! ### depth `d ≥ 0` keeps exactly the lines of the unlimited output at indentation `≤ d` -/

/-- keep the lines whose indentation is at most `d` -/
def keep (d : Int) (ls : List StatLine) : List StatLine := ls.filter fun l => decide ((l.indent : Int) ≤ d)

theorem keep_nil (d : Int) : keep d [] = [] := rfl

theorem keep_cons_zero (d : Int) (hd : 0 ≤ d) (lb : Option Bytes) (s : Option Nat) (t : List StatLine) :
    keep d (⟨0, lb, s⟩ :: t) = ⟨0, lb, s⟩ :: keep d t := by
  simp [keep, hd]

theorem keep_append (d : Int) (a b : List StatLine) : keep d (a ++ b) = keep d a ++ keep d b := by
  simp [keep]

theorem keep_bump (d : Int) : ∀ subs : List StatLine, keep d (subs.map bump) = (keep (d-1) subs).map bump
  | [] => rfl
  | x :: r => by
    have ih := keep_bump d r
    simp only [keep, List.map_cons, List.filter_cons, bump_indent] at ih ⊢
    by_cases h : (x.indent : Int) ≤ d - 1
    · have h' : ((x.indent + 1 : Nat) : Int) ≤ d := by omega
      simp only [h, h', decide_true, if_true, List.map_cons, ih]
    · have h' : ¬ ((x.indent + 1 : Nat) : Int) ≤ d := by omega
      simp only [h, h', decide_false, ih]; rfl

theorem keep_zero_bump : ∀ subs : List StatLine, keep 0 (subs.map bump) = []
  | [] => rfl
  | x :: r => by
    have ih := keep_zero_bump r
    simp only [keep, List.map_cons, List.filter_cons, bump_indent] at ih ⊢
    have h' : ¬ ((x.indent + 1 : Nat) : Int) ≤ 0 := by omega
    simp only [h', decide_false, ih]; rfl

theorem filter_combine (d : Int) (hd : 0 ≤ d) (lbl : Bytes) (x y : Option (List StatLine)) (hh : Headed x) :
    ((x.map (keep d)).bind fun a => (y.map (keep d)).map fun b => setLabel lbl a ++ b)
      = (x.bind fun a => y.map fun b => setLabel lbl a ++ b).map (keep d) := by
  cases x with
  | none => rfl
  | some a =>
    cases y with
    | none => rfl
    | some b =>
      obtain ⟨s, t, rfl, _⟩ := hh a rfl
      simp only [Option.map_some, Option.bind_some, keep_cons_zero d hd, setLabel_hdr, keep_append,
        List.cons_append]

theorem stat_filter_of_kids (v : SV) (m : Int)
    (hk : ∀ d : Int, 0 ≤ d → kids v d m = (kids v (-1) m).map (keep d)) :
    ∀ d : Int, 0 ≤ d → stat v d m = (stat v (-1) m).map (keep d) := by
  intro d hd
  rw [stat_eq, stat_eq v (-1), kids_neg m v (-1-1) (by omega)]
  cases hs : sizeOf v.erase with
  | none => rfl
  | some sz =>
    have hsome := kids_some m v (-1) (by rw [hs]; rfl)
    obtain ⟨subs, hsubs⟩ := Option.isSome_iff_exists.1 hsome
    have hne : ¬ ((-1 : Int) = 0) := by omega
    simp only [Option.bind_some, hne, if_false, hsubs, Option.map_some]
    by_cases h0 : d = 0
    · subst h0
      simp only [if_true, hdr, keep_cons_zero 0 (Int.le_refl 0), keep_zero_bump]
    · rw [if_neg h0, hk (d-1) (by omega), hsubs]
      simp only [Option.map_some, hdr, keep_cons_zero d hd, keep_bump]

mutual
theorem kids_filter (m : Int) : ∀ (v : SV) (d : Int), 0 ≤ d → kids v d m = (kids v (-1) m).map (keep d)
  | .scalar _, _, _ => rfl
  | .str _, _, _ => rfl
  | .arr es, d, h => elems_filter m es 0 d h
  | .slice es, d, h => elems_filter m es 0 d h
  | .map ps, d, h => entries_filter m ps 0 d h
  | .ptr none, _, _ => rfl
  | .ptr (some p), d, h => stat_filter_of_kids p m (fun d' h' => kids_filter m p d' h') d h
  | .iface none, d, hd => by simp only [kids, Option.map_some, keep_cons_zero d hd, keep_nil]
  | .iface (some p), d, h => stat_filter_of_kids p m (fun d' h' => kids_filter m p d' h') d h
  | .struct fs, d, h => fields_filter m fs d h
  | .unsupported, _, _ => rfl
theorem elems_filter (m : Int) : ∀ (es : List SV) (i : Nat) (d : Int), 0 ≤ d →
    statElems es i d m = (statElems es i (-1) m).map (keep d)
  | [], i, d, _ => by rw [statElems_nil, statElems_nil]; rfl
  | e :: r, i, d, h => by
    rw [statElems_cons, statElems_cons]; split
    · rw [stat_filter_of_kids e m (fun d' h' => kids_filter m e d' h') d h, elems_filter m r (i+1) d h]
      exact filter_combine d h _ _ _ (stat_headed e (-1) m)
    · rfl
theorem entries_filter (m : Int) : ∀ (ps : List (Bytes × SV × SV × Bool)) (i : Nat) (d : Int), 0 ≤ d →
    statEntries ps i d m = (statEntries ps i (-1) m).map (keep d)
  | [], i, d, _ => by rw [statEntries_nil, statEntries_nil]; rfl
  | (lbl, k, v, f) :: r, i, d, h => by
    rw [statEntries_cons, statEntries_cons]; split
    · have he : entryLines v f d m = (entryLines v f (-1) m).map (keep d) := by
        rw [entryLines, entryLines]; split
        · exact stat_filter_of_kids v m (fun d' h' => kids_filter m v d' h') d h
        · simp only [Option.map_some, keep_cons_zero d h, keep_nil]
      rw [he, entries_filter m r (i+1) d h]
      exact filter_combine d h _ _ _ (entryLines_headed v f (-1) m)
    · rfl
theorem fields_filter (m : Int) : ∀ (fs : List (Bytes × SV)) (d : Int), 0 ≤ d →
    statFields fs d m = (statFields fs (-1) m).map (keep d)
  | [], d, _ => by rw [statFields_nil, statFields_nil]; rfl
  | (n, v) :: r, d, h => by
    rw [statFields_cons, statFields_cons]
    rw [stat_filter_of_kids v m (fun d' h' => kids_filter m v d' h') d h, fields_filter m r d h]
    exact filter_combine d h _ _ _ (stat_headed v (-1) m)
end

theorem stat_filter (v : SV) (d m : Int) (h : 0 ≤ d) : stat v d m = (stat v (-1) m).map (keep d) :=
  stat_filter_of_kids v m (fun d' h' => kids_filter m v d' h') d h

/-! ### the labels of the lines at indentation 0 of a loop's output (indentation 1 of the result) -/

/-- labels of the lines at indentation `k`, in order -/
def labelsAt (k : Nat) (ls : List StatLine) : List (Option Bytes) :=
  (ls.filter fun l => decide (l.indent = k)).map (·.label)

theorem labelsAt_deeper : ∀ t : List StatLine, (∀ x ∈ t, 0 < x.indent) → labelsAt 0 t = []
  | [], _ => rfl
  | x :: r, h => by
    have hx : ¬ x.indent = 0 := by have := h x (by simp); omega
    have ih := labelsAt_deeper r (fun y hy => h y (by simp [hy]))
    simp only [labelsAt, List.filter_cons, hx, decide_false] at ih ⊢
    exact ih

theorem labelsAt_combine (lbl : Bytes) (x : Option (List StatLine)) (hh : Headed x) (a b) (hx : x = some a) :
    labelsAt 0 (setLabel lbl a ++ b) = some lbl :: labelsAt 0 b := by
  obtain ⟨s, t, rfl, ht⟩ := hh a hx
  have := labelsAt_deeper t ht
  simp only [labelsAt, setLabel_hdr, List.cons_append, List.filter_cons, decide_true, if_true, List.map_cons,
    List.filter_append, List.map_append] at this ⊢
  rw [this]; rfl

theorem labelsAt_bump : ∀ subs : List StatLine, labelsAt 1 (subs.map bump) = labelsAt 0 subs
  | [] => rfl
  | x :: r => by
    have ih := labelsAt_bump r
    simp only [labelsAt, List.map_cons, List.filter_cons, bump_indent] at ih ⊢
    by_cases h : x.indent = 0
    · have h' : x.indent + 1 = 1 := by omega
      simp only [h, decide_true, if_true, List.map_cons, ih, bump_label]
    · have h' : ¬ x.indent + 1 = 1 := by omega
      simp only [h, h', decide_false, Bool.false_eq_true, if_false]; exact ih

theorem labelsAt_stat (v : SV) (d m : Int) (hd : d ≠ 0) (ls) (h : stat v d m = some ls) :
    ∃ subs, kids v (d-1) m = some subs ∧ labelsAt 1 ls = labelsAt 0 subs := by
  obtain ⟨sz, subs, _, rfl, _, h1⟩ := stat_shape v d m ls h
  refine ⟨subs, h1 hd, ?_⟩
  rw [← labelsAt_bump]
  simp [labelsAt, hdr]

theorem elems_labels (m : Int) : ∀ (es : List SV) (i : Nat) (d : Int) (subs), statElems es i d m = some subs →
    labelsAt 0 subs = (List.range' i (min es.length (m.toNat - i))).map fun j => some (dec j)
  | [], i, d, subs, h => by
    rw [statElems_nil] at h; cases h; simp [labelsAt]
  | e :: r, i, d, subs, h => by
    rw [statElems_cons] at h
    by_cases hi : (i : Int) < m
    · rw [if_pos hi] at h
      cases ha : stat e d m with
      | none => rw [ha] at h; simp at h
      | some a =>
        cases hb : statElems r (i+1) d m with
        | none => rw [ha, hb] at h; simp at h
        | some b =>
          rw [ha, hb] at h
          simp only [Option.bind_some, Option.map_some, Option.some.injEq] at h
          subst h
          rw [labelsAt_combine _ _ (stat_headed e d m) a b ha, elems_labels m r (i+1) d b hb]
          have : min (e :: r).length (m.toNat - i) = min r.length (m.toNat - (i+1)) + 1 := by
            simp only [List.length_cons]; omega
          rw [this, List.range'_succ, List.map_cons]
    · rw [if_neg hi] at h; cases h
      have : min (e :: r).length (m.toNat - i) = 0 := by omega
      rw [this]; rfl

theorem entries_labels (m : Int) : ∀ (ps : List (Bytes × SV × SV × Bool)) (i : Nat) (d : Int) (subs),
    statEntries ps i d m = some subs →
    labelsAt 0 subs = (ps.take (m.toNat - i)).map fun p => some p.1
  | [], i, d, subs, h => by
    rw [statEntries_nil] at h; cases h; simp [labelsAt]
  | (lbl, k, v, f) :: r, i, d, subs, h => by
    rw [statEntries_cons] at h
    by_cases hi : (i : Int) < m
    · rw [if_pos hi] at h
      cases ha : entryLines v f d m with
      | none => rw [ha] at h; simp at h
      | some a =>
        cases hb : statEntries r (i+1) d m with
        | none => rw [ha, hb] at h; simp at h
        | some b =>
          rw [ha, hb] at h
          simp only [Option.bind_some, Option.map_some, Option.some.injEq] at h
          subst h
          rw [labelsAt_combine _ _ (entryLines_headed v f d m) a b ha, entries_labels m r (i+1) d b hb]
          have : m.toNat - i = (m.toNat - (i+1)) + 1 := by omega
          rw [this, List.take_succ_cons, List.map_cons]
    · rw [if_neg hi] at h; cases h
      have : m.toNat - i = 0 := by omega
      rw [this]; rfl

theorem fields_labels (m : Int) : ∀ (fs : List (Bytes × SV)) (d : Int) (subs),
    statFields fs d m = some subs → labelsAt 0 subs = fs.map fun p => some p.1
  | [], d, subs, h => by
    rw [statFields_nil] at h; cases h; simp [labelsAt]
  | (n, v) :: r, d, subs, h => by
    rw [statFields_cons] at h
    cases ha : stat v d m with
    | none => rw [ha] at h; simp at h
    | some a =>
      cases hb : statFields r d m with
      | none => rw [ha, hb] at h; simp at h
      | some b =>
        rw [ha, hb] at h
        simp only [Option.bind_some, Option.map_some, Option.some.injEq] at h
        subst h
        rw [labelsAt_combine _ _ (stat_headed v d m) a b ha, fields_labels m r d b hb, List.map_cons]

/-! ### the whole lines at indentation 0 of the element loop: label `i`, number `sizeof(es[i])` -/

theorem filter0_deeper : ∀ t : List StatLine, (∀ x ∈ t, 0 < x.indent) → t.filter (fun l => decide (l.indent = 0)) = []
  | [], _ => rfl
  | x :: r, h => by
    have hx : ¬ x.indent = 0 := by have := h x (by simp); omega
    have ih := filter0_deeper r (fun y hy => h y (by simp [hy]))
    simp only [List.filter_cons, hx, decide_false, Bool.false_eq_true, if_false]
    exact ih

theorem filter1_bump : ∀ subs : List StatLine,
    (subs.map bump).filter (fun l => decide (l.indent = 1)) = (subs.filter fun l => decide (l.indent = 0)).map bump
  | [] => rfl
  | x :: r => by
    have ih := filter1_bump r
    simp only [List.map_cons, List.filter_cons, bump_indent]
    by_cases h : x.indent = 0
    · simp only [h, decide_true, if_true, List.map_cons, ih]
    · have h' : ¬ x.indent + 1 = 1 := by omega
      simp only [h, h', decide_false, Bool.false_eq_true, if_false]; exact ih

theorem elems_lines (m : Int) : ∀ (es : List SV) (i : Nat) (d : Int) (subs), statElems es i d m = some subs →
    subs.filter (fun l => decide (l.indent = 0))
      = ((es.take (m.toNat - i)).zipIdx i).map fun p => ⟨0, some (dec p.2), sizeOf p.1.erase⟩
  | [], i, d, subs, h => by
    rw [statElems_nil] at h; cases h; simp
  | e :: r, i, d, subs, h => by
    rw [statElems_cons] at h
    by_cases hi : (i : Int) < m
    · rw [if_pos hi] at h
      cases ha : stat e d m with
      | none => rw [ha] at h; simp at h
      | some a =>
        cases hb : statElems r (i+1) d m with
        | none => rw [ha, hb] at h; simp at h
        | some b =>
          rw [ha, hb] at h
          simp only [Option.bind_some, Option.map_some, Option.some.injEq] at h
          subst h
          obtain ⟨sz, t, hs, rfl, _, _⟩ := stat_shape e d m a ha
          have ht : ∀ x ∈ t.map bump, 0 < x.indent := by
            intro x hx
            obtain ⟨y, _, rfl⟩ := List.mem_map.1 hx
            rw [bump_indent]; omega
          have hm : m.toNat - i = (m.toNat - (i+1)) + 1 := by omega
          rw [hm, List.take_succ_cons, List.zipIdx_cons, List.map_cons, ← elems_lines m r (i+1) d b hb, hs]
          simp only [hdr, setLabel_hdr, List.cons_append, List.filter_cons, decide_true, if_true,
            List.filter_append, filter0_deeper _ ht, List.nil_append]
    · rw [if_neg hi] at h; cases h
      have : m.toNat - i = 0 := by omega
      rw [this]; rfl

theorem lines1_stat (v : SV) (d m : Int) (hd : d ≠ 0) (ls) (h : stat v d m = some ls) :
    ∃ subs, kids v (d-1) m = some subs ∧
      ls.filter (fun l => decide (l.indent = 1)) = (subs.filter fun l => decide (l.indent = 0)).map bump := by
  obtain ⟨sz, subs, _, rfl, _, h1⟩ := stat_shape v d m ls h
  refine ⟨subs, h1 hd, ?_⟩
  rw [← filter1_bump]
  simp [hdr]

end Low.X04L

namespace Low
open Low.Extras
/-- `X04_Part w v`: `w` is `v` or a part of `v` that `stat` walks into (array / slice elements, map values,
    pointees, dynamic values of interfaces, struct fields; map keys are not walked) -/
inductive X04_Part : SV → SV → Prop where
  | refl (v : SV) : X04_Part v v
  | arr {w e : SV} {es : List SV} : e ∈ es → X04_Part w e → X04_Part w (.arr es)
  | slice {w e : SV} {es : List SV} : e ∈ es → X04_Part w e → X04_Part w (.slice es)
  | mapv {w x : SV} {lbl : Bytes} {k : SV} {f : Bool} {ps : List (Bytes × SV × SV × Bool)} :
      (lbl, k, x, f) ∈ ps → X04_Part w x → X04_Part w (.map ps)
  | ptr {w p : SV} : X04_Part w p → X04_Part w (.ptr (some p))
  | iface {w p : SV} : X04_Part w p → X04_Part w (.iface (some p))
  | field {w x : SV} {n : Bytes} {fs : List (Bytes × SV)} : (n, x) ∈ fs → X04_Part w x → X04_Part w (.struct fs)
end Low

namespace Low.X04L
open Low.Extras

/-! ### every number on a line is `sizeof` of a part -/

def SzOK (P : SV → Prop) (o : Option (List StatLine)) : Prop :=
  ∀ ls, o = some ls → ∀ l ∈ ls, ∀ n, l.size = some n → ∃ w, P w ∧ sizeOf w.erase = some n

theorem SzOK.mono {P Q : SV → Prop} {o} (h : SzOK P o) (hpq : ∀ w, P w → Q w) : SzOK Q o := by
  intro ls hl l hm n hn
  obtain ⟨w, hw, hs⟩ := h ls hl l hm n hn
  exact ⟨w, hpq w hw, hs⟩

theorem szOK_nil (P : SV → Prop) : SzOK P (some []) := by
  intro ls h; cases h; simp

theorem szOK_combine (P : SV → Prop) (lbl : Bytes) (x y : Option (List StatLine)) (hh : Headed x)
    (hx : SzOK P x) (hy : SzOK P y) :
    SzOK P (x.bind fun a => y.map fun b => setLabel lbl a ++ b) := by
  intro ls h l hl n hn
  cases x with
  | none => simp at h
  | some a =>
    cases y with
    | none => simp at h
    | some b =>
      simp only [Option.bind_some, Option.map_some, Option.some.injEq] at h
      subst h
      obtain ⟨s, t, rfl, _⟩ := hh a rfl
      rw [setLabel_hdr, List.mem_append, List.mem_cons] at hl
      rcases hl with (rfl | hl) | hl
      · exact hx _ rfl ⟨0, none, s⟩ (by simp) n hn
      · exact hx _ rfl l (by simp [hl]) n hn
      · exact hy _ rfl l hl n hn

theorem stat_sz_of_kids (v : SV) (m : Int) (hk : ∀ d : Int, SzOK (X04_Part · v) (kids v d m)) :
    ∀ d : Int, SzOK (X04_Part · v) (stat v d m) := by
  intro d ls h l hl n hn
  obtain ⟨sz, subs, hs, rfl, h0, h1⟩ := stat_shape v d m ls h
  rw [List.mem_cons] at hl
  rcases hl with rfl | hl
  · simp only [hdr, Option.some.injEq] at hn
    subst hn
    exact ⟨v, .refl v, hs⟩
  · obtain ⟨y, hy, rfl⟩ := List.mem_map.1 hl
    by_cases hd0 : d = 0
    · rw [h0 hd0] at hy; simp at hy
    · exact hk (d-1) subs (h1 hd0) y hy n (by rw [← bump_size]; exact hn)

mutual
theorem kids_sz (m : Int) : ∀ (v : SV) (d : Int), SzOK (X04_Part · v) (kids v d m)
  | .scalar _, _ => szOK_nil _
  | .str _, _ => szOK_nil _
  | .arr es, d => (elems_sz m es 0 d).mono fun _ ⟨_, he, hw⟩ => .arr he hw
  | .slice es, d => (elems_sz m es 0 d).mono fun _ ⟨_, he, hw⟩ => .slice he hw
  | .map ps, d => (entries_sz m ps 0 d).mono fun _ ⟨_, _, _, _, he, hw⟩ => .mapv he hw
  | .ptr none, _ => szOK_nil _
  | .ptr (some p), d => (stat_sz_of_kids p m (fun d' => kids_sz m p d') d).mono fun _ hw => .ptr hw
  | .iface none, d => by intro ls h l hl n hn; cases h; simp at hl; subst hl; cases hn
  | .iface (some p), d => (stat_sz_of_kids p m (fun d' => kids_sz m p d') d).mono fun _ hw => .iface hw
  | .struct fs, d => (fields_sz m fs d).mono fun _ ⟨_, _, he, hw⟩ => .field he hw
  | .unsupported, _ => szOK_nil _
theorem elems_sz (m : Int) : ∀ (es : List SV) (i : Nat) (d : Int),
    SzOK (fun w => ∃ e, e ∈ es ∧ X04_Part w e) (statElems es i d m)
  | [], i, d => by rw [statElems_nil]; exact szOK_nil _
  | e :: r, i, d => by
    rw [statElems_cons]; split
    · refine szOK_combine _ _ _ _ (stat_headed e d m) ?_ ?_
      · exact (stat_sz_of_kids e m (fun d' => kids_sz m e d') d).mono fun w hw => ⟨e, by simp, hw⟩
      · exact (elems_sz m r (i+1) d).mono fun w ⟨e', he, hw⟩ => ⟨e', by simp [he], hw⟩
    · exact szOK_nil _
theorem entries_sz (m : Int) : ∀ (ps : List (Bytes × SV × SV × Bool)) (i : Nat) (d : Int),
    SzOK (fun w => ∃ lbl k x f, (lbl, k, x, f) ∈ ps ∧ X04_Part w x) (statEntries ps i d m)
  | [], i, d => by rw [statEntries_nil]; exact szOK_nil _
  | (lbl, k, v, f) :: r, i, d => by
    rw [statEntries_cons]; split
    · refine szOK_combine _ _ _ _ (entryLines_headed v f d m) ?_ ?_
      · rw [entryLines]; split
        · exact (stat_sz_of_kids v m (fun d' => kids_sz m v d') d).mono
            fun w hw => ⟨lbl, k, v, f, by simp, hw⟩
        · intro ls h l hl n hn; cases h; simp at hl; subst hl; cases hn
      · exact (entries_sz m r (i+1) d).mono
          fun w ⟨l', k', x', f', he, hw⟩ => ⟨l', k', x', f', by simp [he], hw⟩
    · exact szOK_nil _
theorem fields_sz (m : Int) : ∀ (fs : List (Bytes × SV)) (d : Int),
    SzOK (fun w => ∃ n x, (n, x) ∈ fs ∧ X04_Part w x) (statFields fs d m)
  | [], d => by rw [statFields_nil]; exact szOK_nil _
  | (n, v) :: r, d => by
    rw [statFields_cons]
    refine szOK_combine _ _ _ _ (stat_headed v d m) ?_ ?_
    · exact (stat_sz_of_kids v m (fun d' => kids_sz m v d') d).mono fun w hw => ⟨n, v, by simp, hw⟩
    · exact (fields_sz m r d).mono fun w ⟨n', x', he, hw⟩ => ⟨n', x', by simp [he], hw⟩
end

theorem stat_sz (v : SV) (d m : Int) : SzOK (X04_Part · v) (stat v d m) :=
  stat_sz_of_kids v m (fun d' => kids_sz m v d') d

end Low.X04L
