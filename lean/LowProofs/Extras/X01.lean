import LowModel.Extras.Fmt
import LowProofs.Extras.X01Lemmas
/-
  X01 -- bitmap.Fmt (bitmap/fmt.go): the rendering of integers / slices of integers as binary digits,
  least significant bit first, bytes separated by ' ', elements by ','.
  Model: LowModel/Extras/Fmt.lean.  Helper lemmas: X01Lemmas.lean (namespace Low.X01L).
-/
namespace Low.X01L
open Low.Extras

theorem byte_fin : ∀ b : Fin 256,
    fmt08b (reverse8 b.val) = (List.range 8).map fun k => bitChar (b.val.testBit k) := by
  decide +kernel

theorem byteAt_lt (n i : Nat) : byteAt n i < 256 := Nat.mod_lt _ (by decide)

theorem byteAt_testBit (n i k : Nat) (hk : k < 8) : (byteAt n i).testBit k = n.testBit (8 * i + k) := by
  show ((n >>> (i * 8)) % 2 ^ 8).testBit k = _
  rw [Nat.testBit_mod_two_pow, Nat.testBit_shiftRight, Nat.mul_comm]
  simp [hk]

/-- the rendering of byte `i` of `n` -/
theorem byte_bits (n i : Nat) :
    fmt08b (reverse8 (byteAt n i)) = (List.range 8).map fun k => bitChar (n.testBit (8 * i + k)) := by
  rw [byte_fin ⟨byteAt n i, byteAt_lt n i⟩]
  apply List.map_congr_left
  intro k hk
  rw [byteAt_testBit n i k (by simpa using hk)]

theorem intFmt_eq (ty : IntTy) (v : Int) : intFmt (.int ty v) = some (elemSpec ty.size v) := by
  simp only [intFmt, intSize, elemSpec, bitOf]
  congr 2
  apply List.map_congr_left
  intro i _
  exact byte_bits (toU64 v) i

theorem size_pos (ty : IntTy) : 0 < ty.size := by cases ty <;> decide

theorem size_le (ty : IntTy) : ty.size ≤ 8 := by cases ty <;> decide

/-! ### one element -/

/-- the byte chunks of `elemSpec` -/
def chunks (sz : Nat) (v : Int) : List (List Char) :=
  (List.range sz).map fun j => (List.range 8).map fun k => bitChar (bitOf v (8 * j + k))

theorem elemSpec_eq (sz : Nat) (v : Int) : elemSpec sz v = joinSep [' '] (chunks sz v) := rfl

theorem chunks_length (sz : Nat) (v : Int) : (chunks sz v).length = sz := by simp [chunks]

theorem chunks_len8 (sz : Nat) (v : Int) : ∀ x ∈ chunks sz v, x.length = 8 := by
  intro x hx
  simp only [chunks, List.mem_map] at hx
  rcases hx with ⟨j, _, rfl⟩
  simp

theorem chunks_get (sz : Nat) (v : Int) (j : Nat) (hj : j < (chunks sz v).length) :
    (chunks sz v)[j] = (List.range 8).map fun k => bitChar (bitOf v (8 * j + k)) := by
  simp [chunks]

theorem elem_length_succ (sz : Nat) (v : Int) (h : 0 < sz) : (elemSpec sz v).length + 1 = 9 * sz := by
  have hne : chunks sz v ≠ [] := by
    intro h0
    have := chunks_length sz v
    rw [h0] at this; simp at this; omega
  rw [elemSpec_eq, js_length ' ' 8 _ (chunks_len8 sz v) hne, chunks_length]
  omega

theorem elem_get (sz : Nat) (v : Int) (j k : Nat) (hj : j < sz) (hk : k < 8) :
    (elemSpec sz v)[9 * j + k]? = some (bitChar (bitOf v (8 * j + k))) := by
  have hj' : j < (chunks sz v).length := by rw [chunks_length]; exact hj
  have := js_get ' ' 8 (chunks sz v) j k (chunks_len8 sz v) hj' hk
  rw [show 9 * j + k = j * (8 + 1) + k by omega, elemSpec_eq, this, chunks_get]
  simp [hk]

theorem elem_sep (sz : Nat) (v : Int) (j : Nat) (hj : j + 1 < sz) :
    (elemSpec sz v)[9 * j + 8]? = some ' ' := by
  have hj' : j + 1 < (chunks sz v).length := by rw [chunks_length]; exact hj
  have := js_sep ' ' 8 (chunks sz v) j (chunks_len8 sz v) hj'
  rw [show 9 * j + 8 = j * (8 + 1) + 8 by omega, elemSpec_eq, this]

/-! ### a slice of elements of one size -/

theorem elems_len (sz : Nat) (h : 0 < sz) (vs : List Int) :
    ∀ x ∈ vs.map (elemSpec sz), x.length = 9 * sz - 1 := by
  intro x hx
  simp only [List.mem_map] at hx
  rcases hx with ⟨v, _, rfl⟩
  have := elem_length_succ sz v h
  omega

theorem slice_length_succ (sz : Nat) (h : 0 < sz) (vs : List Int) (hne : vs ≠ []) :
    (joinSep [','] (vs.map (elemSpec sz))).length + 1 = 9 * sz * vs.length := by
  rw [js_length ',' (9 * sz - 1) _ (elems_len sz h vs) (by simpa using hne), List.length_map,
    show 9 * sz - 1 + 1 = 9 * sz by omega, Nat.mul_comm]

/-- position `i` of element `e` -/
theorem slice_get (sz : Nat) (h : 0 < sz) (vs : List Int) (e i : Nat) (he : e < vs.length) (hi : i + 1 < 9 * sz) :
    (joinSep [','] (vs.map (elemSpec sz)))[9 * sz * e + i]? = (elemSpec sz (vs[e]'he))[i]? := by
  have he' : e < (vs.map (elemSpec sz)).length := by simpa using he
  have := js_get ',' (9 * sz - 1) _ e i (elems_len sz h vs) he' (by omega)
  rw [show 9 * sz - 1 + 1 = 9 * sz by omega, Nat.mul_comm] at this
  rw [this]
  simp

theorem slice_sep (sz : Nat) (h : 0 < sz) (vs : List Int) (e : Nat) (he : e + 1 < vs.length) :
    (joinSep [','] (vs.map (elemSpec sz)))[9 * sz * e + 9 * sz - 1]? = some ',' := by
  have he' : e + 1 < (vs.map (elemSpec sz)).length := by simpa using he
  have := js_sep ',' (9 * sz - 1) _ e (elems_len sz h vs) he'
  rw [show 9 * sz - 1 + 1 = 9 * sz by omega, Nat.mul_comm] at this
  rw [show 9 * sz * e + 9 * sz - 1 = 9 * sz * e + (9 * sz - 1) by omega, this]

/-! ### two's complement, parse-back -/

theorem toU64_mod (ty : IntTy) (v : Int) : toU64 v % 2 ^ (8 * ty.size) = (v % 2 ^ (8 * ty.size)).toNat := by
  cases ty <;> simp only [IntTy.size, toU64, Nat.reduceMul, Nat.reducePow, Int.reducePow] <;> omega

theorem ofBits_toU64 (ty : IntTy) (v : Int) (h : ty.inRange v) : ty.ofBits (toU64 v % 2 ^ (8 * ty.size)) = v := by
  cases ty <;>
    simp [IntTy.inRange, IntTy.ofBits, IntTy.signed, IntTy.size, toU64] at h ⊢ <;> omega

theorem bitChar_eq_one (b : Bool) : (bitChar b = '1') = (b = true) := by cases b <;> decide

theorem parseElem_eq (sz : Nat) (s : List Char) :
    parseElem sz s = bitSum (fun i => decide (s.getD (9 * (i / 8) + i % 8) '0' = '1')) (8 * sz) := by
  simp [parseElem, bitSum]

/-- parse-back of a rendering gives the low `8·sz` bits of the value -/
theorem parse_elemSpec (sz : Nat) (v : Int) : parseElem sz (elemSpec sz v) = toU64 v % 2 ^ (8 * sz) := by
  rw [parseElem_eq, ← bitSum_testBit]
  apply bitSum_congr
  intro i hi
  rw [List.getD_eq_getElem?_getD, elem_get sz v (i / 8) (i % 8) (by omega) (by omega),
    show 8 * (i / 8) + i % 8 = i by omega]
  simp [bitChar_eq_one, bitOf]

theorem elemSpec_inj (ty : IntTy) (v v' : Int) (h : ty.inRange v) (h' : ty.inRange v')
    (heq : elemSpec ty.size v = elemSpec ty.size v') : v = v' := by
  have := congrArg (fun s => ty.ofBits (parseElem ty.size s)) heq
  simpa only [parse_elemSpec, ofBits_toU64 ty v h, ofBits_toU64 ty v' h'] using this

theorem map_elemSpec_inj (ty : IntTy) : ∀ (vs vs' : List Int), (∀ v ∈ vs, ty.inRange v) → (∀ v ∈ vs', ty.inRange v) →
    vs.map (elemSpec ty.size) = vs'.map (elemSpec ty.size) → vs = vs'
  | [], [], _, _, _ => rfl
  | [], _ :: _, _, _, h => by simp at h
  | _ :: _, [], _, _, h => by simp at h
  | v :: r, v' :: r', hv, hv', h => by
    simp only [List.map_cons, List.cons.injEq] at h
    have h1 := elemSpec_inj ty v v' (hv v (List.mem_cons_self)) (hv' v' (List.mem_cons_self)) h.1
    have h2 := map_elemSpec_inj ty r r' (fun x hx => hv x (List.mem_cons_of_mem _ hx))
      (fun x hx => hv' x (List.mem_cons_of_mem _ hx)) h.2
    rw [h1, h2]

end Low.X01L

namespace Low
open Low.Extras Low.X01L

/-- one byte: `%08b` of the bit-reversed byte = its bits, least significant first -/
theorem X01_byte (b : Nat) (h : b < 256) :
    fmt08b (reverse8 b) = (List.range 8).map fun k => bitChar (b.testBit k) :=
  byte_fin ⟨b, h⟩

example : fmt08b (reverse8 0x13) = "11001000".toList := by decide +kernel

/-- intFmt of a supported value is the specified rendering -/
theorem X01_intFmt (ty : IntTy) (v : Int) : intFmt (.int ty v) = some (elemSpec ty.size v) :=
  intFmt_eq ty v

example : intFmt (.int .i32 0x0102) = some "01000000 10000000 00000000 00000000".toList := by decide +kernel
example : elemSpec 2 (-2) = "01111111 11111111".toList := by decide +kernel

/-- a slice of one supported type: elements joined by ',' -/
theorem X01_fmt_slice (ty : IntTy) (vs : List Int) :
    fmt (.slice (vs.map (Dyn.int ty))) = some (joinSep [','] (vs.map (elemSpec ty.size))) := by
  simp only [fmt]
  rw [mapM_map_some intFmt (Dyn.int ty) (elemSpec ty.size) (intFmt_eq ty) vs]
  rfl

example : fmt (.slice ([1, -1].map (Dyn.int .i8))) = some "10000000,11111111".toList := by decide +kernel

/-- a slice with elements of mixed supported types (`[]interface{}`) -/
theorem X01_fmt_slice_mixed (es : List (IntTy × Int)) :
    fmt (.slice (es.map fun p => Dyn.int p.1 p.2)) = some (joinSep [','] (es.map fun p => elemSpec p.1.size p.2)) := by
  simp only [fmt]
  rw [mapM_map_some intFmt (fun p : IntTy × Int => Dyn.int p.1 p.2) (fun p => elemSpec p.1.size p.2)
    (fun p => intFmt_eq p.1 p.2) es]
  rfl

example : fmt (.slice ([(IntTy.u8, 3), (IntTy.i16, -2)].map fun p => Dyn.int p.1 p.2))
    = some "11000000,01111111 11111111".toList := by decide +kernel

theorem X01_fmt_scalar (ty : IntTy) (v : Int) : fmt (.scalar (.int ty v)) = some (elemSpec ty.size v) :=
  intFmt_eq ty v

example : fmt (.scalar (.int .u16 0x8001)) = some "10000000 00000001".toList := by decide +kernel

theorem X01_fmt_empty : fmt (.slice []) = some [] := rfl

/-- panic exactly for unsupported dynamic types -/
theorem X01_panic_scalar (d : Dyn) : fmt (.scalar d) = none ↔ d = .other := by
  cases d with
  | int ty v => simp [fmt, intFmt_eq]
  | other => simp [fmt, intFmt, intSize]

example : fmt (.scalar .other) = none := by decide
example : fmt (.scalar (.int .u8 5)) ≠ none := by decide +kernel

theorem X01_panic_slice (es : List Dyn) : fmt (.slice es) = none ↔ Dyn.other ∈ es := by
  simp only [fmt, Option.map_eq_none_iff]
  rw [mapM_eq_none]
  constructor
  · rintro ⟨b, hb, hn⟩
    have : b = .other := (X01_panic_scalar b).mp hn
    exact this ▸ hb
  · intro h
    exact ⟨.other, h, rfl⟩

example : fmt (.slice [.int .u8 5, .other, .int .i64 (-1)]) = none := by decide +kernel
example : fmt (.slice [.int .u8 5, .int .i64 (-1)]) ≠ none := by decide +kernel

/-- exact length of one element -/
theorem X01_elem_length (sz : Nat) (v : Int) (h : 0 < sz) : (elemSpec sz v).length = 9 * sz - 1 := by
  have := elem_length_succ sz v h
  omega

example : (elemSpec 4 (-77)).length = 35 := by decide +kernel

/-- exact length for a non-empty slice of one type -/
theorem X01_fmt_length (ty : IntTy) (vs : List Int) (h : vs ≠ []) :
    ∃ s, fmt (.slice (vs.map (Dyn.int ty))) = some s ∧ s.length = 9 * ty.size * vs.length - 1 := by
  refine ⟨_, X01_fmt_slice ty vs, ?_⟩
  have := slice_length_succ ty.size (size_pos ty) vs h
  omega

example : ∃ s, fmt (.slice ([5, -6, 7].map (Dyn.int .i16))) = some s ∧ s.length = 53 := by decide +kernel

/-- exact length for a slice with elements of mixed supported types ([]interface{}) -/
theorem X01_fmt_length_mixed (es : List (IntTy × Int)) (h : es ≠ []) :
    ∃ s, fmt (.slice (es.map fun p => Dyn.int p.1 p.2)) = some s ∧
      s.length + 1 = (es.map fun p => 9 * p.1.size).sum := by
  refine ⟨_, X01_fmt_slice_mixed es, ?_⟩
  rw [js_length_sum ',' _ (by simpa using h), List.map_map]
  congr 1
  apply List.map_congr_left
  intro p _
  exact elem_length_succ p.1.size p.2 (size_pos p.1)

example : ∃ s, fmt (.slice ([(IntTy.u8, 3), (IntTy.i16, -2), (IntTy.u64, 9)].map fun p => Dyn.int p.1 p.2)) = some s ∧
    s.length + 1 = 9 * 1 + 9 * 2 + 9 * 8 := by decide +kernel

/-- digit k of byte j of element e is bit 8j+k of the value -/
theorem X01_digit (ty : IntTy) (vs : List Int) (e j k : Nat) (he : e < vs.length) (hj : j < ty.size) (hk : k < 8) :
    ∃ s, fmt (.slice (vs.map (Dyn.int ty))) = some s ∧
      s[9 * ty.size * e + 9 * j + k]? = some (bitChar (bitOf (vs[e]'he) (8 * j + k))) := by
  refine ⟨_, X01_fmt_slice ty vs, ?_⟩
  rw [Nat.add_assoc, slice_get ty.size (size_pos ty) vs e (9 * j + k) he (by omega)]
  exact elem_get ty.size _ j k hj hk

example : ∃ s, fmt (.slice ([5, 0x0200].map (Dyn.int .u16))) = some s ∧
    s[9 * 2 * 1 + 9 * 1 + 1]? = some '1' ∧ bitOf 0x0200 (8 * 1 + 1) = true := by decide +kernel

/-- a single value: digit k of byte j is bit 8j+k of the value -/
theorem X01_digit_scalar (ty : IntTy) (v : Int) (j k : Nat) (hj : j < ty.size) (hk : k < 8) :
    ∃ s, fmt (.scalar (.int ty v)) = some s ∧ s[9 * j + k]? = some (bitChar (bitOf v (8 * j + k))) :=
  ⟨_, X01_fmt_scalar ty v, elem_get ty.size v j k hj hk⟩

example : ∃ s, fmt (.scalar (.int .i16 (-2))) = some s ∧ s[9 * 1 + 7]? = some '1' ∧ s[9 * 0 + 0]? = some '0' := by
  decide +kernel

/-- the separators: ' ' after every byte but the last of an element -/
theorem X01_sep_space (ty : IntTy) (vs : List Int) (e j : Nat) (he : e < vs.length) (hj : j + 1 < ty.size) :
    ∃ s, fmt (.slice (vs.map (Dyn.int ty))) = some s ∧ s[9 * ty.size * e + 9 * j + 8]? = some ' ' := by
  refine ⟨_, X01_fmt_slice ty vs, ?_⟩
  rw [Nat.add_assoc, slice_get ty.size (size_pos ty) vs e (9 * j + 8) he (by omega)]
  exact elem_sep ty.size _ j hj

example : ∃ s, fmt (.slice ([5, 0x0200].map (Dyn.int .u16))) = some s ∧ s[9 * 2 * 1 + 9 * 0 + 8]? = some ' ' := by
  decide +kernel

/-- ',' after every element but the last -/
theorem X01_sep_comma (ty : IntTy) (vs : List Int) (e : Nat) (he : e + 1 < vs.length) :
    ∃ s, fmt (.slice (vs.map (Dyn.int ty))) = some s ∧ s[9 * ty.size * e + 9 * ty.size - 1]? = some ',' :=
  ⟨_, X01_fmt_slice ty vs, slice_sep ty.size (size_pos ty) vs e he⟩

example : ∃ s, fmt (.slice ([5, 0x0200, 3].map (Dyn.int .u16))) = some s ∧ s[9 * 2 * 1 + 9 * 2 - 1]? = some ',' := by
  decide +kernel

/-- `bitOf` is the two's-complement bit of the value: for a bit inside the width of the type it is the bit of
    `v mod 2^(8·size)` (no range hypothesis on `v` is needed) -/
theorem X01_bitOf (ty : IntTy) (v : Int) (i : Nat) (hi : i < 8 * ty.size) :
    bitOf v i = (v % 2 ^ (8 * ty.size)).toNat.testBit i := by
  rw [← toU64_mod, Nat.testBit_mod_two_pow]
  simp [hi, bitOf]

example : bitOf (-2) 7 = true ∧ ((-2 : Int) % 2 ^ (8 * IntTy.i8.size)).toNat = 254 := by decide +kernel

/-- for a non-negative value it is the bit of the value itself -/
theorem X01_bitOf_nonneg (ty : IntTy) (v : Int) (i : Nat) (hi : i < 8 * ty.size) (h0 : 0 ≤ v) :
    bitOf v i = v.toNat.testBit i := by
  have h64 : i < 64 := by have := size_le ty; omega
  have : toU64 v = v.toNat % 2 ^ 64 := by
    simp only [toU64, Nat.reducePow, Int.reducePow]; omega
  rw [bitOf, this, Nat.testBit_mod_two_pow]
  simp [h64]

example : bitOf 0x0200 9 = true ∧ (0x0200 : Int).toNat.testBit 9 = true := by decide +kernel

/-- parse-back: the rendering determines the value -/
theorem X01_parse (ty : IntTy) (v : Int) (h : ty.inRange v) :
    ty.ofBits (parseElem ty.size (elemSpec ty.size v)) = v := by
  rw [parse_elemSpec, ofBits_toU64 ty v h]

example : IntTy.i16.inRange (-300) ∧ IntTy.i16.ofBits (parseElem 2 (elemSpec 2 (-300))) = -300 := by decide +kernel
example : IntTy.i8.ofBits (parseElem 1 "01111111".toList) = -2 := by decide +kernel

theorem X01_intFmt_inj (ty : IntTy) (v v' : Int) (h : ty.inRange v) (h' : ty.inRange v') :
    intFmt (.int ty v) = intFmt (.int ty v') → v = v' := by
  rw [X01_intFmt, X01_intFmt]
  intro heq
  exact elemSpec_inj ty v v' h h' (Option.some.inj heq)

/-- the range hypotheses are needed: 256 is no uint8 and renders like 0 -/
example : intFmt (.int .u8 256) = intFmt (.int .u8 0) := by decide +kernel

theorem X01_fmt_inj (ty : IntTy) (vs vs' : List Int) (h : ∀ v ∈ vs, ty.inRange v) (h' : ∀ v ∈ vs', ty.inRange v) :
    fmt (.slice (vs.map (Dyn.int ty))) = fmt (.slice (vs'.map (Dyn.int ty))) → vs = vs' := by
  rw [X01_fmt_slice, X01_fmt_slice]
  intro heq
  have hc : 0 < 9 * ty.size - 1 := by have := size_pos ty; omega
  have := js_inj ',' (9 * ty.size - 1) hc _ _ (elems_len ty.size (size_pos ty) vs)
    (elems_len ty.size (size_pos ty) vs') (Option.some.inj heq)
  exact map_elemSpec_inj ty vs vs' h h' this

example : fmt (.slice ([1, 2].map (Dyn.int .u8))) ≠ fmt (.slice ([1, 3].map (Dyn.int .u8))) := by decide +kernel

end Low
