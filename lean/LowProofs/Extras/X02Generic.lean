import LowModel.Extras.Tree
/-
  X02 (generic part) -- layer 1 of `LowModel/Extras/Tree.lean` (`toStrings`, `depthFirst`) over ANY implementation
  `t : TreeI N L` of the interface `tree.Tree`; no `FTree` involved.  The theorems justify the fuel-based modelling of
  the Go recursion (more fuel never changes an answer; a leaf needs one unit; a cyclic implementation never
  terminates) and relate the two walks (they terminate together, one line per callback call, the shape of the calls).
-/
namespace Low.X02GL
open Low.Extras

/-! ### `List.mapM` in the `Option` monad -/

theorem mapM_cons_opt {α β} (f : α → Option β) (a : α) (as : List α) :
    (a :: as).mapM f = (f a).bind fun b => (as.mapM f).map fun bs => b :: bs := by
  simp only [List.mapM_cons]
  cases f a <;> cases as.mapM f <;> rfl

theorem mapM_nil_opt {α β} (f : α → Option β) : ([] : List α).mapM f = some [] := rfl

/-- pointwise "at least as defined" functions give the same `mapM` answer -/
theorem mapM_mono {α β} (f g : α → Option β) : ∀ (as : List α) (r : List β),
    (∀ a ∈ as, ∀ b, f a = some b → g a = some b) → as.mapM f = some r → as.mapM g = some r
  | [], r, _, h => by rw [mapM_nil_opt] at h ⊢; exact h
  | a :: as, r, hfg, h => by
    rw [mapM_cons_opt] at h ⊢
    cases hfa : f a with
    | none => rw [hfa] at h; simp at h
    | some b =>
      cases hm : as.mapM f with
      | none => rw [hfa, hm] at h; simp at h
      | some bs =>
        rw [hfa, hm] at h
        rw [hfg a (by simp) b hfa, mapM_mono f g as bs (fun a' ha' => hfg a' (by simp [ha'])) hm]
        exact h

/-- `mapM` terminates iff every call does -/
theorem mapM_isSome_congr {α β γ} (f : α → Option β) (g : α → Option γ) : ∀ (as : List α),
    (∀ a ∈ as, (f a).isSome = (g a).isSome) → (as.mapM f).isSome = (as.mapM g).isSome
  | [], _ => rfl
  | a :: as, h => by
    have h1 := h a (by simp)
    have h2 := mapM_isSome_congr f g as (fun a' ha' => h a' (by simp [ha']))
    rw [mapM_cons_opt, mapM_cons_opt]
    cases hf : f a <;> cases hg : g a <;> rw [hf, hg] at h1 <;>
      cases hmf : as.mapM f <;> cases hmg : as.mapM g <;> rw [hmf, hmg] at h2 <;> simp_all

/-- every answer collected by `mapM` is the answer for one of the arguments -/
theorem mapM_mem {α β} (f : α → Option β) : ∀ (as : List α) (r : List β), as.mapM f = some r →
    ∀ x ∈ r, ∃ a ∈ as, f a = some x
  | [], r, h, x, hx => by rw [mapM_nil_opt] at h; cases h; simp at hx
  | a :: as, r, h, x, hx => by
    rw [mapM_cons_opt] at h
    cases hfa : f a with
    | none => rw [hfa] at h; simp at h
    | some b =>
      cases hm : as.mapM f with
      | none => rw [hfa, hm] at h; simp at h
      | some bs =>
        rw [hfa, hm] at h
        simp only [Option.bind_some, Option.map_some, Option.some.injEq] at h
        subst h
        rcases List.mem_cons.1 hx with rfl | hx
        · exact ⟨a, by simp, hfa⟩
        · obtain ⟨a', ha', hf'⟩ := mapM_mem f as bs hm x hx
          exact ⟨a', by simp [ha'], hf'⟩

/-- two `mapM`s over the same list whose answers have pairwise the same length: the concatenations have the same length -/
theorem mapM_flatten_length {α β γ} (f : α → Option (List β)) (g : α → Option (List γ)) :
    ∀ (as : List α) (xs : List (List β)) (ys : List (List γ)),
    (∀ a ∈ as, ∀ x y, f a = some x → g a = some y → x.length = y.length) →
    as.mapM f = some xs → as.mapM g = some ys → xs.flatten.length = ys.flatten.length
  | [], xs, ys, _, h1, h2 => by
    rw [mapM_nil_opt] at h1 h2; cases h1; cases h2; rfl
  | a :: as, xs, ys, hl, h1, h2 => by
    rw [mapM_cons_opt] at h1 h2
    cases hfa : f a with
    | none => rw [hfa] at h1; simp at h1
    | some x =>
      cases hga : g a with
      | none => rw [hga] at h2; simp at h2
      | some y =>
        cases hmf : as.mapM f with
        | none => rw [hfa, hmf] at h1; simp at h1
        | some xs' =>
          cases hmg : as.mapM g with
          | none => rw [hga, hmg] at h2; simp at h2
          | some ys' =>
            rw [hfa, hmf] at h1
            rw [hga, hmg] at h2
            simp only [Option.bind_some, Option.map_some, Option.some.injEq] at h1 h2
            subst h1; subst h2
            have ih := mapM_flatten_length f g as xs' ys' (fun a' ha' => hl a' (by simp [ha'])) hmf hmg
            have h0 := hl a (by simp) x y hfa hga
            simp only [List.flatten_cons, List.length_append, h0, ih]

/-! ### one unfolding of the two walks -/

theorem toStrings_succ {N L} (t : TreeI N L) (fuel : Nat) (inb : Option L) (n : N) :
    toStrings t (fuel + 1) inb n
      = ((t.labels n).mapM fun b => toStrings t fuel (some b) (t.child n b)).map fun subs =>
          (nodeStr t inb n).1 :: subs.flatten.map (spaces (nodeStr t inb n).2 ++ ·) := by
  rw [toStrings]
  cases (t.labels n).mapM fun b => toStrings t fuel (some b) (t.child n b) <;> rfl

theorem depthFirst_succ {N L} (t : TreeI N L) (fuel : Nat) (p : Option N) (l : Option L) (n : N) :
    depthFirst t (fuel + 1) p l n
      = ((t.labels n).mapM fun b => depthFirst t fuel (some n) (some b) (t.child n b)).map fun subs =>
          subs.flatten ++ [(p, l, n)] := by
  rw [depthFirst]
  cases (t.labels n).mapM fun b => depthFirst t fuel (some n) (some b) (t.child n b) <;> rfl

theorem toStrings_mono {N L} (t : TreeI N L) (k : Nat) : ∀ (fuel : Nat) (inb : Option L) (n : N) (r : List Bytes),
    toStrings t fuel inb n = some r → toStrings t (fuel + k) inb n = some r
  | 0, _, _, _, h => by rw [toStrings] at h; cases h
  | fuel + 1, inb, n, r, h => by
    rw [Nat.add_right_comm, toStrings_succ]
    rw [toStrings_succ] at h
    obtain ⟨subs, hs, hr⟩ := Option.map_eq_some_iff.1 h
    rw [mapM_mono _ _ (t.labels n) subs (fun b _ x hx => toStrings_mono t k fuel (some b) (t.child n b) x hx) hs]
    rw [Option.map_some, hr]

theorem depthFirst_mono {N L} (t : TreeI N L) (k : Nat) : ∀ (fuel : Nat) (p : Option N) (l : Option L) (n : N)
    (r : List (Visit N L)), depthFirst t fuel p l n = some r → depthFirst t (fuel + k) p l n = some r
  | 0, _, _, _, _, h => by rw [depthFirst] at h; cases h
  | fuel + 1, p, l, n, r, h => by
    rw [Nat.add_right_comm, depthFirst_succ]
    rw [depthFirst_succ] at h
    obtain ⟨subs, hs, hr⟩ := Option.map_eq_some_iff.1 h
    rw [mapM_mono _ _ (t.labels n) subs
      (fun b _ x hx => depthFirst_mono t k fuel (some n) (some b) (t.child n b) x hx) hs]
    rw [Option.map_some, hr]

theorem together {N L} (t : TreeI N L) : ∀ (fuel : Nat) (inb : Option L) (p : Option N) (l : Option L) (n : N),
    (toStrings t fuel inb n).isSome = (depthFirst t fuel p l n).isSome
  | 0, _, _, _, _ => by rw [toStrings, depthFirst]; rfl
  | fuel + 1, inb, p, l, n => by
    rw [toStrings_succ, depthFirst_succ, Option.isSome_map, Option.isSome_map]
    exact mapM_isSome_congr _ _ _ fun b _ => together t fuel (some b) (some n) (some b) (t.child n b)

theorem lengths {N L} (t : TreeI N L) : ∀ (fuel : Nat) (inb : Option L) (p : Option N) (l : Option L) (n : N)
    (ls : List Bytes) (vs : List (Visit N L)),
    toStrings t fuel inb n = some ls → depthFirst t fuel p l n = some vs → ls.length = vs.length
  | 0, _, _, _, _, _, _, h, _ => by rw [toStrings] at h; cases h
  | fuel + 1, inb, p, l, n, ls, vs, h1, h2 => by
    rw [toStrings_succ] at h1
    rw [depthFirst_succ] at h2
    obtain ⟨xs, hx, rfl⟩ := Option.map_eq_some_iff.1 h1
    obtain ⟨ys, hy, rfl⟩ := Option.map_eq_some_iff.1 h2
    have := mapM_flatten_length _ _ (t.labels n) xs ys
      (fun b _ x y hx hy => lengths t fuel (some b) (some n) (some b) (t.child n b) x y hx hy) hx hy
    simp only [List.length_cons, List.length_map, List.length_append, List.length_nil, this]

theorem df_last {N L} (t : TreeI N L) (fuel : Nat) (p : Option N) (l : Option L) (n : N) (vs : List (Visit N L))
    (h : depthFirst t fuel p l n = some vs) : vs.getLast? = some (p, l, n) := by
  cases fuel with
  | zero => rw [depthFirst] at h; cases h
  | succ fuel =>
    rw [depthFirst_succ] at h
    obtain ⟨ys, _, rfl⟩ := Option.map_eq_some_iff.1 h
    exact List.getLast?_concat

theorem df_edges {N L} (t : TreeI N L) : ∀ (fuel : Nat) (p : Option N) (l : Option L) (n : N) (vs : List (Visit N L)),
    depthFirst t fuel p l n = some vs →
    ∀ v ∈ vs.dropLast, ∃ q b, v = (some q, some b, t.child q b) ∧ b ∈ t.labels q
  | 0, _, _, _, _, h => by rw [depthFirst] at h; cases h
  | fuel + 1, p, l, n, vs, h => by
    rw [depthFirst_succ] at h
    obtain ⟨ys, hy, rfl⟩ := Option.map_eq_some_iff.1 h
    intro v hv
    rw [List.dropLast_concat] at hv
    obtain ⟨sub, hsub, hvs⟩ := List.mem_flatten.1 hv
    obtain ⟨b, hb, hf⟩ := mapM_mem _ _ _ hy sub hsub
    have hlast := df_last t fuel _ _ _ sub hf
    obtain ⟨pre, hpre⟩ := List.getLast?_eq_some_iff.1 hlast
    have hd : sub.dropLast = pre := by rw [hpre, List.dropLast_concat]
    rw [hpre] at hvs
    rcases List.mem_append.1 hvs with hv' | hv'
    · exact df_edges t fuel _ _ _ sub hf v (by rw [hd]; exact hv')
    · rw [List.mem_singleton] at hv'
      exact ⟨n, b, hv', hb⟩

end Low.X02GL

namespace Low
open Low.Extras

namespace X02GL
/-- the complete binary tree on the node numbers 0..6 (`n ↦ 2n+1, 2n+2`), labels 0 and 1, node id = the number -/
def binT : TreeI Nat Nat where
  nilNode := 0
  root := 0
  child := fun n b => 2 * n + 1 + b
  labels := fun n => if n < 3 then [0, 1] else []
  nodeID := fun n => dec n
  labelInfo := fun b => dec b
  nodeInfo := fun _ => []
  leafVal := fun n => if n < 3 then none else some [118]
/-- a cyclic implementation: the only child of every node is the node itself -/
def cycT : TreeI Nat Nat where
  nilNode := 0
  root := 0
  child := fun n _ => n
  labels := fun _ => [0]
  nodeID := fun _ => []
  labelInfo := fun _ => []
  nodeInfo := fun _ => []
  leafVal := fun _ => none
end X02GL
open X02GL

/-- more fuel never changes an answer: once `toStrings` terminates within `fuel`, every larger fuel gives the same lines -/
theorem X02_toStrings_fuel_mono {N L} (t : TreeI N L) (fuel k : Nat) (inb : Option L) (n : N) (r : List Bytes)
    (h : toStrings t fuel inb n = some r) : toStrings t (fuel + k) inb n = some r :=
  X02GL.toStrings_mono t k fuel inb n r h

example : toStrings binT 2 (some 0) 1 = some [[45, 48, 45, 62, 35, 49, 42, 50],
      [32, 32, 32, 32, 32, 32, 45, 48, 45, 62, 35, 51, 61, 118], [32, 32, 32, 32, 32, 32, 45, 49, 45, 62, 35, 52, 61, 118]]
    ∧ toStrings binT (2 + 3) (some 0) 1 = toStrings binT 2 (some 0) 1 ∧ toStrings binT 1 (some 0) 1 = none := by
  decide +kernel

/-- the same for `depthFirst` -/
theorem X02_depthFirst_fuel_mono {N L} (t : TreeI N L) (fuel k : Nat) (p : Option N) (l : Option L) (n : N)
    (r : List (Visit N L)) (h : depthFirst t fuel p l n = some r) : depthFirst t (fuel + k) p l n = some r :=
  X02GL.depthFirst_mono t k fuel p l n r h

example : depthFirst binT 3 none none 0 = some [(some 1, some 0, 3), (some 1, some 1, 4), (some 0, some 0, 1),
      (some 2, some 0, 5), (some 2, some 1, 6), (some 0, some 1, 2), (none, none, 0)]
    ∧ depthFirst binT (3 + 4) none none 0 = depthFirst binT 3 none none 0 ∧ depthFirst binT 2 none none 0 = none := by
  decide +kernel

/-- both walks follow the same `Labels`/`Child` structure: one terminates within `fuel` iff the other does -/
theorem X02_walks_terminate_together {N L} (t : TreeI N L) (fuel : Nat) (inb : Option L) (p : Option N) (l : Option L)
    (n : N) : (toStrings t fuel inb n).isSome = (depthFirst t fuel p l n).isSome :=
  X02GL.together t fuel inb p l n

example : (toStrings binT 3 none 0).isSome = true ∧ (depthFirst binT 3 none none 0).isSome = true
    ∧ (toStrings binT 2 none 0).isSome = false ∧ (depthFirst binT 2 none none 0).isSome = false := by decide +kernel

/-- a cyclic implementation never terminates in the model: `none` for every fuel (so the hypotheses `… = some _` of
    the other theorems are genuine) -/
theorem X02_cyclic_none : ∀ fuel : Nat, toStrings cycT fuel none 0 = none ∧ depthFirst cycT fuel none none 0 = none := by
  have h1 : ∀ (fuel : Nat) (inb : Option Nat), toStrings cycT fuel inb 0 = none := by
    intro fuel
    induction fuel with
    | zero => intro inb; rfl
    | succ f ih =>
      intro inb
      rw [X02GL.toStrings_succ]
      show Option.map _ (List.mapM _ [0]) = none
      rw [X02GL.mapM_cons_opt]
      show Option.map _ (Option.bind (toStrings cycT f (some 0) 0) _) = none
      rw [ih]; rfl
  intro fuel
  refine ⟨h1 fuel none, ?_⟩
  have := X02_walks_terminate_together cycT fuel none none none 0
  rw [h1] at this
  cases h : depthFirst cycT fuel none none 0 with
  | none => rfl
  | some x => rw [h] at this; cases this

example : toStrings cycT 50 none 0 = none := (X02_cyclic_none 50).1

/-- … and then there are as many lines as callback calls (one per node visited) -/
theorem X02_lines_eq_calls {N L} (t : TreeI N L) (fuel : Nat) (inb : Option L) (p : Option N) (l : Option L) (n : N)
    (ls : List Bytes) (vs : List (Visit N L))
    (h1 : toStrings t fuel inb n = some ls) (h2 : depthFirst t fuel p l n = some vs) : ls.length = vs.length :=
  X02GL.lengths t fuel inb p l n ls vs h1 h2

example : (toStrings binT 3 none 0).map List.length = some 7 ∧ (depthFirst binT 3 none none 0).map List.length = some 7 := by
  decide +kernel

/-- the first line is the node's own `nodeStr` text -/
theorem X02_toStrings_head {N L} (t : TreeI N L) (fuel : Nat) (inb : Option L) (n : N) (ls : List Bytes)
    (h : toStrings t fuel inb n = some ls) : ls.head? = some (nodeStr t inb n).1 := by
  cases fuel with
  | zero => rw [toStrings] at h; cases h
  | succ fuel =>
    rw [X02GL.toStrings_succ] at h
    obtain ⟨xs, _, rfl⟩ := Option.map_eq_some_iff.1 h
    rfl

example : (toStrings binT 3 none 0).map List.head? = some (some [35, 48, 42, 50])
    ∧ (nodeStr binT none 0).1 = [35, 48, 42, 50] := by decide +kernel

/-- the last call is the node itself with the parent and label it was reached by -/
theorem X02_depthFirst_last {N L} (t : TreeI N L) (fuel : Nat) (p : Option N) (l : Option L) (n : N)
    (vs : List (Visit N L)) (h : depthFirst t fuel p l n = some vs) : vs.getLast? = some (p, l, n) :=
  X02GL.df_last t fuel p l n vs h

example : (depthFirst binT 2 (some 0) (some 1) 2).map List.getLast? = some (some (some 0, some 1, 2)) := by
  decide +kernel

/-- every call other than the last has a non-nil parent `q` and a non-nil label `b`, `b` is one of `Labels(q)` and the
    node of the call is `Child(q, b)` -/
theorem X02_depthFirst_edges {N L} (t : TreeI N L) (fuel : Nat) (p : Option N) (l : Option L) (n : N)
    (vs : List (Visit N L)) (h : depthFirst t fuel p l n = some vs) :
    ∀ v ∈ vs.dropLast, ∃ q b, v = (some q, some b, t.child q b) ∧ b ∈ t.labels q :=
  X02GL.df_edges t fuel p l n vs h

example : (depthFirst binT 3 none none 0).map List.dropLast = some [(some 1, some 0, 3), (some 1, some 1, 4),
    (some 0, some 0, 1), (some 2, some 0, 5), (some 2, some 1, 6), (some 0, some 1, 2)] := by decide +kernel

/-- a leaf of the implementation (no labels): one line, one call, with any positive fuel -/
theorem X02_leaf {N L} (t : TreeI N L) (fuel : Nat) (inb : Option L) (p : Option N) (l : Option L) (n : N)
    (h : t.labels n = []) :
    toStrings t (fuel + 1) inb n = some [(nodeStr t inb n).1] ∧ depthFirst t (fuel + 1) p l n = some [(p, l, n)] := by
  rw [X02GL.toStrings_succ, X02GL.depthFirst_succ, h]
  exact ⟨rfl, rfl⟩

example : binT.labels 5 = [] ∧ toStrings binT 1 (some 0) 5 = some [[45, 48, 45, 62, 35, 53, 61, 118]]
    ∧ depthFirst binT 1 (some 2) (some 0) 5 = some [(some 2, some 0, 5)] := by decide +kernel

end Low
