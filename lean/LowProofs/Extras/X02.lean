import LowProofs.Extras.X02Lemmas
/-
  X02 -- package tree (`/repo/tree/tree.go`): `nodeStr`, `toStrings`, `String`, `depthFirst`, `DepthFirst` run over a
  finite tree through the interface (`FTree.iface`) give the specified rendering (`FTree.lines`, pre-order, one line per
  node, indentation = sum of the prefix widths of the proper ancestors) and the specified callback sequence
  (`FTree.post`, post-order, every node exactly once with its parent and branch label).
-/
namespace Low
open Low.Extras

namespace X02L
/-- the tree of `tree_test.go` (`0 -> 1 -> 3 -> {5, 6}`, `0 -> 2 -> 4`): ids "00".."06", info "(foo)", label = branch
    number, leaves have the value "leaf" -/
def b (s : String) : Bytes := s.toList.map Char.toNat
def leafT (id : String) : FTree := .node (b id) (b "(foo)") (some (b "leaf")) []
def exT : FTree :=
  .node (b "00") (b "(foo)") none
    [(b "0", .node (b "01") (b "(foo)") none
        [(b "0", .node (b "03") (b "(foo)") none [(b "0", leafT "05"), (b "1", leafT "06")])]),
     (b "1", .node (b "02") (b "(foo)") none [(b "0", leafT "04")])]
/-- the subtree "03" of `exT` -/
def exT3 : FTree := .node (b "03") (b "(foo)") none [(b "0", leafT "05"), (b "1", leafT "06")]
end X02L
open X02L

/-- nodeStr through the interface = the specified line and prefix width -/
theorem X02_nodeStr (nilT root t : FTree) (inb : Option (Nat × Bytes)) :
    nodeStr (FTree.iface nilT root) inb (some t) = FTree.lineOf (inb.map (·.2)) t :=
  X02L.nodeStr_eq nilT root (some t) inb

/-- the same for the nil node, which stands for `nilT` -/
theorem X02_nodeStr_nil (nilT root : FTree) (inb : Option (Nat × Bytes)) :
    nodeStr (FTree.iface nilT root) inb none = FTree.lineOf (inb.map (·.2)) nilT :=
  X02L.nodeStr_eq nilT root none inb

example : nodeStr (FTree.iface exT exT) (some (1, b "1")) (some exT3) = (b "-1->#03(foo)*2", 7) := by decide +kernel

/-- toStrings = the pre-order rendering, for every fuel ≥ height -/
theorem X02_toStrings (nilT root t : FTree) (inb : Option (Nat × Bytes)) (fuel : Nat) (h : t.height ≤ fuel) :
    toStrings (FTree.iface nilT root) fuel inb (some t) = some (FTree.lines 0 (inb.map (·.2)) t) :=
  X02L.toStrings_eq nilT root fuel t inb (some t) rfl h

example : toStrings (FTree.iface exT exT) 2 (some (0, b "0")) (some exT3)
    = some [b "-0->#03(foo)*2", b "       -0->#05(foo)=leaf", b "       -1->#06(foo)=leaf"] := by decide +kernel

/-- too little fuel is reported, never a wrong answer -/
theorem X02_toStrings_fuel (nilT root t : FTree) (inb : Option (Nat × Bytes)) (fuel : Nat) (h : fuel < t.height) :
    toStrings (FTree.iface nilT root) fuel inb (some t) = none :=
  X02L.toStrings_none nilT root fuel t inb (some t) rfl h

example : exT3.height = 2 ∧ toStrings (FTree.iface exT exT) 1 none (some exT3) = none := by decide +kernel

/-- String(t): starts at the nil node (rendered as nilT), joined by '\n' -/
theorem X02_string (nilT root : FTree) (fuel : Nat) (h : nilT.height ≤ fuel) :
    treeString (FTree.iface nilT root) fuel = some (joinSep [10] (FTree.lines 0 none nilT)) := by
  have := X02L.toStrings_eq nilT root fuel nilT none none rfl h
  simp only [treeString, Option.map_none] at this ⊢
  show Option.map _ (toStrings (FTree.iface nilT root) fuel none none) = _
  rw [this]; rfl

/-- the expected string of `TestToString` -/
example : treeString (FTree.iface exT exT) 4 = some (b
"#00(foo)*2
   -0->#01(foo)
          -0->#03(foo)*2
                 -0->#05(foo)=leaf
                 -1->#06(foo)=leaf
   -1->#02(foo)
          -0->#04(foo)=leaf") := by decide +kernel

/-- too little fuel is reported, never a wrong answer -/
theorem X02_string_fuel (nilT root : FTree) (fuel : Nat) (h : fuel < nilT.height) :
    treeString (FTree.iface nilT root) fuel = none := by
  have := X02L.toStrings_none nilT root fuel nilT none none rfl h
  show Option.map _ (toStrings (FTree.iface nilT root) fuel none none) = _
  rw [this]; rfl

example : exT.height = 4 ∧ treeString (FTree.iface exT exT) 3 = none := by decide +kernel

/-- one line per node -/
theorem X02_lines_count (off : Nat) (inb : Option Bytes) (t : FTree) : (FTree.lines off inb t).length = t.size :=
  X02L.lines_length t off inb

example : (FTree.lines 0 none exT).length = 7 ∧ exT.size = 7 := by decide +kernel

/-- indentation: a shift of the offset is a prefix of spaces on every line (so `lines off` = `lines 0` indented by
    `off`) -/
theorem X02_lines_shift (off : Nat) (inb : Option Bytes) (t : FTree) :
    FTree.lines off inb t = (FTree.lines 0 inb t).map (spaces off ++ ·) := by
  have := X02L.lines_add t off 0 inb
  simpa only [Nat.add_zero] using this

example : FTree.lines 3 (some (b "1")) exT3
    = [b "   -1->#03(foo)*2", b "          -0->#05(foo)=leaf", b "          -1->#06(foo)=leaf"] := by decide +kernel

/-- the first line is the node's own text -/
theorem X02_lines_head (off : Nat) (inb : Option Bytes) (t : FTree) :
    (FTree.lines off inb t).head? = some (spaces off ++ (FTree.lineOf inb t).1) := by
  cases t; simp [FTree.lines]

/-- the lines after the first are those of the children, in branch order, each child's block at offset
    `off + prefix width of the node` (`linesList` is the concatenation of the children's `lines`) -/
theorem X02_lines_tail (off : Nat) (inb : Option Bytes) (t : FTree) :
    (FTree.lines off inb t).tail = FTree.linesList (off + (FTree.lineOf inb t).2) t.branches := by
  cases t; simp [FTree.lines, FTree.branches]

theorem X02_linesList_flatten (off : Nat) (bs : List (Bytes × FTree)) :
    FTree.linesList off bs = (bs.map fun x => FTree.lines off (some x.1) x.2).flatten := by
  induction bs with
  | nil => simp [FTree.linesList]
  | cons x r ih => obtain ⟨lbl, c⟩ := x; simp [FTree.linesList, ih]

example : (FTree.lines 3 (some (b "1")) exT3).head? = some (b "   -1->#03(foo)*2") ∧
    (FTree.lineOf (some (b "1")) exT3).2 = 7 ∧
    (FTree.lines 3 (some (b "1")) exT3).tail = FTree.lines 10 (some (b "0")) (leafT "05") ++
      FTree.lines 10 (some (b "1")) (leafT "06") := by decide +kernel

/-- DepthFirst = post-order of the tree that Child(nil,nil) returns -/
theorem X02_depthFirst (nilT root : FTree) (fuel : Nat) (h : root.height ≤ fuel) :
    depthFirstTop (FTree.iface nilT root) fuel = some (FTree.post none none root) :=
  X02L.depthFirst_eq nilT root fuel root none none h

/-- too little fuel is reported, never a wrong answer -/
theorem X02_depthFirst_fuel (nilT root : FTree) (fuel : Nat) (h : fuel < root.height) :
    depthFirstTop (FTree.iface nilT root) fuel = none :=
  X02L.depthFirst_none nilT root fuel root none none h

/-- the expected calls of `TestDepthFirst` (parent id, branch number, node id) -/
example : (depthFirstTop (FTree.iface exT exT) 4).map (fun vs => vs.map fun (p, l, n) =>
      (((p.getD none).getD exT).id, (l.map (·.1)).getD 0, (n.getD exT).id))
    = some [(b "03", 0, b "05"), (b "03", 1, b "06"), (b "01", 0, b "03"), (b "00", 0, b "01"),
            (b "02", 0, b "04"), (b "00", 1, b "02"), (b "00", 0, b "00")] ∧
    depthFirstTop (FTree.iface exT exT) 3 = none := by decide +kernel

/-- one callback call per node -/
theorem X02_post_count (p : Option FTree) (l : Option (Nat × Bytes)) (t : FTree) :
    (FTree.post p l t).length = t.size :=
  X02L.post_length t p l

/-- the node itself comes last (after everything below it) -/
theorem X02_post_last (p : Option FTree) (l : Option (Nat × Bytes)) (t : FTree) :
    (FTree.post p l t).getLast? = some (p.map some, l, some t) := by
  cases t; simp [FTree.post]

example : (FTree.post none none exT).length = 7 ∧
    (FTree.post (some exT) (some (0, b "0")) exT3).getLast? = some (some (some exT), some (0, b "0"), some exT3) :=
  ⟨by decide +kernel, rfl⟩

/-! ### positions: every node exactly once, with the right parent and label, children before parents -/

namespace Extras
namespace FTree
/-- the node at a path; a path is the list of branch numbers from the root (`[]` = the root itself);
    `none` when the path leaves the tree -/
def sub : FTree → List Nat → Option FTree
  | t, [] => some t
  | t, k :: p => (t.branches[k]?).bind fun x => sub x.2 p

mutual
/-- the paths of all nodes, in post-order (same recursion as `post`) -/
def postPaths : FTree → List (List Nat)
  | .node _ _ _ bs => postPathsList 0 bs ++ [[]]
/-- the paths (relative to the parent) of all nodes below the branches `bs`, the first of which has number `k` -/
def postPathsList (k : Nat) : List (Bytes × FTree) → List (List Nat)
  | [] => []
  | (_, c) :: r => (postPaths c).map (k :: ·) ++ postPathsList (k + 1) r
end

/-- the callback call for the node at `path` below `t`, where `t` itself is called with `parent`, `label`: walk down
    the path remembering the last node and branch passed (`(none, none, none)` when the path leaves the tree) -/
def visitFrom (parent : Option FTree) (label : Option (Nat × Bytes)) :
    FTree → List Nat → Visit (Option FTree) (Nat × Bytes)
  | t, [] => (parent.map some, label, some t)
  | t, k :: p => match t.branches[k]? with
    | some x => visitFrom (some t) (some (k, x.1)) x.2 p
    | none => (none, none, none)

/-- the callback call `DepthFirst` owes to the node at `path` of `t`; characterised by `X02_visitAt_root` and
    `X02_visitAt_snoc` -/
def visitAt (t : FTree) (path : List Nat) : Visit (Option FTree) (Nat × Bytes) := visitFrom none none t path
end FTree

/-- `postBefore a b`: position `a` comes before position `b` in post-order: `b` is a proper prefix of `a` (`a` lies
    below `b`), or at the first place where they differ `a` takes the smaller branch number -/
def postBefore : List Nat → List Nat → Prop
  | [], _ => False
  | _ :: _, [] => True
  | i :: a, j :: b => i < j ∨ (i = j ∧ postBefore a b)
end Extras

namespace X02L
open FTree

theorem sub_append : ∀ (p q : List Nat) (t : FTree), sub t (p ++ q) = (sub t p).bind fun c => sub c q
  | [], q, t => by simp [sub]
  | k :: p, q, t => by
    simp only [List.cons_append, sub]
    cases t.branches[k]? with
    | none => rfl
    | some x => simp [sub_append p q x.2]

theorem visitFrom_snoc : ∀ (p : List Nat) (t : FTree) (P : Option FTree) (L : Option (Nat × Bytes)) (k : Nat)
    (parent : FTree) (x : Bytes × FTree), sub t p = some parent → parent.branches[k]? = some x →
    visitFrom P L t (p ++ [k]) = (some (some parent), some (k, x.1), some x.2)
  | [], t, P, L, k, parent, x, h1, h2 => by
    simp only [sub, Option.some.injEq] at h1; subst h1
    simp [visitFrom, h2]
  | j :: p, t, P, L, k, parent, x, h1, h2 => by
    simp only [sub] at h1
    cases hb : t.branches[j]? with
    | none => simp [hb] at h1
    | some y =>
      simp only [hb, Option.bind_some] at h1
      simp only [List.cons_append, visitFrom, hb]
      exact visitFrom_snoc p y.2 _ _ k parent x h1 h2

mutual
theorem post_eq_map : ∀ (t : FTree) (P : Option FTree) (L : Option (Nat × Bytes)),
    post P L t = (postPaths t).map (visitFrom P L t)
  | .node i f l bs, P, L => by
    simp only [post, postPaths, List.map_append, List.map_cons, List.map_nil]
    have h := postList_eq_map bs [] (.node i f l bs) P L rfl
    simp only [List.length_nil] at h
    rw [h]
    simp [visitFrom]
theorem postList_eq_map : ∀ (bs pre : List (Bytes × FTree)) (t : FTree) (P : Option FTree) (L : Option (Nat × Bytes)),
    t.branches = pre ++ bs → postList t pre.length bs = (postPathsList pre.length bs).map (visitFrom P L t)
  | [], pre, t, P, L, _ => by simp [postList, postPathsList]
  | (lbl, c) :: r, pre, t, P, L, hb => by
    have h2 := postList_eq_map r (pre ++ [(lbl, c)]) t P L (by simp [hb])
    simp only [List.length_append, List.length_cons, List.length_nil, Nat.zero_add] at h2
    simp only [postList, postPathsList, List.map_append, List.map_map, h2, post_eq_map c]
    congr 1
    apply List.map_congr_left
    intro q _
    simp [visitFrom, hb]
end

mutual
theorem mem_postPaths : ∀ (t : FTree) (p : List Nat), p ∈ postPaths t ↔ (sub t p).isSome
  | .node i f l bs, p => by
    simp only [postPaths, List.mem_append, List.mem_singleton, mem_postPathsList bs 0 p]
    cases p with
    | nil => simp [sub]
    | cons k q =>
      simp only [sub, branches, Nat.zero_add, List.cons.injEq, reduceCtorEq, or_false]
      constructor
      · rintro ⟨j, q', ⟨rfl, rfl⟩, x, hx, hs⟩; simp [hx, hs]
      · intro h
        cases hx : bs[k]? with
        | none => simp [hx] at h
        | some x => exact ⟨k, q, ⟨rfl, rfl⟩, x, hx, by simpa [hx] using h⟩
theorem mem_postPathsList : ∀ (bs : List (Bytes × FTree)) (k : Nat) (p : List Nat),
    p ∈ postPathsList k bs ↔ ∃ j q, p = (k + j) :: q ∧ ∃ x, bs[j]? = some x ∧ (sub x.2 q).isSome
  | [], k, p => by simp [postPathsList]
  | (lbl, c) :: r, k, p => by
    simp only [postPathsList, List.mem_append, List.mem_map, mem_postPaths c, mem_postPathsList r (k + 1) p]
    constructor
    · rintro (⟨q, hq, rfl⟩ | ⟨j, q, rfl, x, hx, hs⟩)
      · exact ⟨0, q, rfl, (lbl, c), rfl, hq⟩
      · exact ⟨j + 1, q, by simp; omega, x, by simpa using hx, hs⟩
    · rintro ⟨j, q, rfl, x, hx, hs⟩
      cases j with
      | zero =>
        simp only [List.getElem?_cons_zero, Option.some.injEq] at hx; subst hx
        exact Or.inl ⟨q, hs, rfl⟩
      | succ j => exact Or.inr ⟨j, q, by simp; omega, x, by simpa using hx, hs⟩
end

theorem postBefore_cons (k : Nat) {a b : List Nat} (h : postBefore a b) : postBefore (k :: a) (k :: b) := by
  simp [postBefore, h]

theorem postBefore_asymm : ∀ (a b : List Nat), postBefore a b → ¬ postBefore b a
  | [], _, h => by simp [postBefore] at h
  | _ :: _, [], _ => by simp [postBefore]
  | i :: a, j :: b, h => by
    simp only [postBefore] at h ⊢
    rintro (h' | ⟨rfl, h'⟩)
    · omega
    · rcases h with h | ⟨_, h⟩
      · omega
      · exact postBefore_asymm a b h h'

theorem postBefore_irrefl (a : List Nat) : ¬ postBefore a a := fun h => postBefore_asymm a a h h

theorem postBefore_below : ∀ (p s : List Nat), s ≠ [] → postBefore (p ++ s) p
  | [], s, hs => by cases s with | nil => simp at hs | cons => simp [postBefore]
  | k :: p, s, hs => postBefore_cons k (postBefore_below p s hs)

theorem postBefore_sibling : ∀ (p s s' : List Nat) (k k' : Nat), k < k' → postBefore (p ++ k :: s) (p ++ k' :: s')
  | [], s, s', k, k', h => by simp [postBefore, h]
  | j :: p, s, s', k, k', h => postBefore_cons j (postBefore_sibling p s s' k k' h)

mutual
theorem postPaths_sorted : ∀ t : FTree, (postPaths t).Pairwise postBefore
  | .node i f l bs => by
    simp only [postPaths]
    rw [List.pairwise_append]
    refine ⟨postPathsList_sorted bs 0, by simp, ?_⟩
    intro a ha b hb
    simp only [List.mem_singleton] at hb; subst hb
    obtain ⟨j, q, rfl, _⟩ := (mem_postPathsList bs 0 a).mp ha
    simp [postBefore]
theorem postPathsList_sorted : ∀ (bs : List (Bytes × FTree)) (k : Nat), (postPathsList k bs).Pairwise postBefore
  | [], k => by simp [postPathsList]
  | (lbl, c) :: r, k => by
    simp only [postPathsList]
    rw [List.pairwise_append, List.pairwise_map]
    refine ⟨(postPaths_sorted c).imp (fun h => postBefore_cons k h), postPathsList_sorted r (k + 1), ?_⟩
    intro a ha b hb
    obtain ⟨q, _, rfl⟩ := List.mem_map.mp ha
    obtain ⟨j, q', rfl, _⟩ := (mem_postPathsList r (k + 1) b).mp hb
    simp only [postBefore]; omega
end

/-- in a list sorted by an asymmetric relation, related elements appear in that order -/
theorem idxOf_lt_of_pairwise {α} [BEq α] [LawfulBEq α] {R : α → α → Prop} (hR : ∀ a b, R a b → ¬ R b a) :
    ∀ (l : List α) (a b : α), l.Pairwise R → a ∈ l → b ∈ l → R a b → l.idxOf a < l.idxOf b
  | [], _, _, _, ha, _, _ => by simp at ha
  | x :: l, a, b, hp, ha, hb, hab => by
    rw [List.pairwise_cons] at hp
    have hne : a ≠ b := fun h => by subst h; exact hR a a hab hab
    rw [List.idxOf_cons, List.idxOf_cons]
    by_cases hxa : x = a
    · subst hxa
      have : (x == b) = false := by simpa using hne
      simp [this]
    · have hxa' : (x == a) = false := by simpa using hxa
      have ha' : a ∈ l := by simpa [Ne.symm hxa] using ha
      by_cases hxb : x = b
      · subst hxb; exact absurd (hp.1 a ha') (hR _ _ hab)
      · have hxb' : (x == b) = false := by simpa using hxb
        have hb' : b ∈ l := by simpa [Ne.symm hxb] using hb
        simp only [hxa', hxb', cond_false]
        exact Nat.succ_lt_succ (idxOf_lt_of_pairwise hR l a b hp.2 ha' hb' hab)

end X02L
open Extras.FTree

/-- the call for the root: nil parent, nil label -/
theorem X02_visitAt_root (t : FTree) : visitAt t [] = (none, none, some t) := rfl

/-- the call for the node on branch `k` of the node `parent` at path `p`: parent, (branch number, label), child -/
theorem X02_visitAt_snoc (t : FTree) (p : List Nat) (k : Nat) (parent child : FTree) (label : Bytes)
    (hp : sub t p = some parent) (hk : parent.branches[k]? = some (label, child)) :
    visitAt t (p ++ [k]) = (some (some parent), some (k, label), some child) :=
  X02L.visitFrom_snoc p t none none k parent (label, child) hp hk

/-- the calls of `DepthFirst` are, in order, the calls owed to the positions `postPaths t` -/
theorem X02_post_paths (t : FTree) : FTree.post none none t = (postPaths t).map (visitAt t) :=
  X02L.post_eq_map t none none

example : postPaths exT = [[0, 0, 0], [0, 0, 1], [0, 0], [0], [1, 0], [1], []] ∧ sub exT [0, 0] = some exT3 ∧
    visitAt exT [0, 0, 1] = (some (some exT3), some (1, b "1"), some (leafT "06")) ∧ sub exT [1, 1] = none :=
  ⟨by decide +kernel, rfl, rfl, rfl⟩

/-- positions are visited in the post-order of positions: below before above, smaller branch first -/
theorem X02_postPaths_sorted (t : FTree) : (postPaths t).Pairwise postBefore := X02L.postPaths_sorted t

/-- no position twice: each node gets exactly one call -/
theorem X02_postPaths_nodup (t : FTree) : (postPaths t).Nodup :=
  (X02L.postPaths_sorted t).imp fun {a b} (h : postBefore a b) (e : a = b) => by
    subst e; exact X02L.postBefore_irrefl a h

/-- every position of the tree, and nothing else -/
theorem X02_postPaths_complete (t : FTree) (p : List Nat) : p ∈ postPaths t ↔ (sub t p).isSome :=
  X02L.mem_postPaths t p

example : (postPaths exT).Nodup ∧ ([0, 0] ∈ postPaths exT ↔ (sub exT [0, 0]).isSome) ∧ [0, 1] ∉ postPaths exT := by
  refine ⟨X02_postPaths_nodup _, X02_postPaths_complete _ _, ?_⟩
  rw [X02_postPaths_complete]; decide +kernel

/-- children before parents (everything below a position comes before it), and siblings in branch order (everything
    on a smaller branch of a node comes before everything on a larger one); `idxOf` = position in the call sequence -/
theorem X02_post_order (t : FTree) (p : List Nat) :
    (∀ s, s ≠ [] → p ++ s ∈ postPaths t → (postPaths t).idxOf (p ++ s) < (postPaths t).idxOf p) ∧
    (∀ k k' s s', k < k' → p ++ k :: s ∈ postPaths t → p ++ k' :: s' ∈ postPaths t →
      (postPaths t).idxOf (p ++ k :: s) < (postPaths t).idxOf (p ++ k' :: s')) := by
  constructor
  · intro s hs hm
    have hp : p ∈ postPaths t := by
      rw [X02L.mem_postPaths] at hm ⊢
      rw [X02L.sub_append] at hm
      cases h : sub t p with
      | none => simp [h] at hm
      | some c => rfl
    exact X02L.idxOf_lt_of_pairwise X02L.postBefore_asymm _ _ _ (X02L.postPaths_sorted t) hm hp
      (X02L.postBefore_below p s hs)
  · intro k k' s s' hk h1 h2
    exact X02L.idxOf_lt_of_pairwise X02L.postBefore_asymm _ _ _ (X02L.postPaths_sorted t) h1 h2
      (X02L.postBefore_sibling p s s' k k' hk)

/-- the form asked for: `p ++ [k]` before `p`, and `p ++ [k]` before `p ++ [k + 1]` -/
theorem X02_post_order_child (t : FTree) (p : List Nat) (k : Nat) :
    (p ++ [k] ∈ postPaths t → (postPaths t).idxOf (p ++ [k]) < (postPaths t).idxOf p) ∧
    (p ++ [k + 1] ∈ postPaths t → (postPaths t).idxOf (p ++ [k]) < (postPaths t).idxOf (p ++ [k + 1])) := by
  refine ⟨(X02_post_order t p).1 [k] (by simp), fun h => (X02_post_order t p).2 k (k + 1) [] [] (by omega) ?_ h⟩
  rw [X02L.mem_postPaths, X02L.sub_append] at h ⊢
  cases hs : sub t p with
  | none => simp [hs] at h
  | some c =>
    simp only [hs, Option.bind_some, sub] at h ⊢
    cases hk1 : c.branches[k + 1]? with
    | none => simp [hk1] at h
    | some x =>
      have hlt : k + 1 < c.branches.length := by
        rcases Nat.lt_or_ge (k + 1) c.branches.length with h' | h'
        · exact h'
        · rw [List.getElem?_eq_none h'] at hk1; cases hk1
      rw [List.getElem?_eq_getElem (by omega : k < c.branches.length)]; rfl

example : (postPaths exT).idxOf [0, 0, 1] = 1 ∧ (postPaths exT).idxOf [0, 0] = 2 ∧ (postPaths exT).idxOf [0] = 3 ∧
    (postPaths exT).idxOf [1] = 5 ∧ [0, 0] ++ [1] ∈ postPaths exT := by
  refine ⟨by decide +kernel, by decide +kernel, by decide +kernel, by decide +kernel, ?_⟩
  rw [X02_postPaths_complete]; decide +kernel

/-! ### positions of the lines: pre-order, indentation = sum of the prefix widths of the proper ancestors -/

namespace Extras
namespace FTree
mutual
/-- the paths of all nodes, in pre-order (same recursion as `lines`) -/
def prePaths : FTree → List (List Nat)
  | .node _ _ _ bs => [] :: prePathsList 0 bs
/-- the paths (relative to the parent) of all nodes below the branches `bs`, the first of which has number `k` -/
def prePathsList (k : Nat) : List (Bytes × FTree) → List (List Nat)
  | [] => []
  | (_, c) :: r => (prePaths c).map (k :: ·) ++ prePathsList (k + 1) r
end

/-- the node at a path together with the label of the branch it hangs on (`inb` for the root) -/
def nodeAt (inb : Option Bytes) : FTree → List Nat → Option (Option Bytes × FTree)
  | t, [] => some (inb, t)
  | t, k :: p => (t.branches[k]?).bind fun x => nodeAt (some x.1) x.2 p

/-- the prefix width (`lineOf … .2`: the part `-label->#id` of the line) of the node at a path; 0 outside the tree -/
def widthAt (inb : Option Bytes) (t : FTree) (path : List Nat) : Nat :=
  match nodeAt inb t path with
  | some (l, c) => (lineOf l c).2
  | none => 0

/-- the sum of the prefix widths of the proper ancestors (= the proper prefixes `path.take n`, `n < path.length`) -/
def indentAt (inb : Option Bytes) (t : FTree) (path : List Nat) : Nat :=
  ((List.range path.length).map fun n => widthAt inb t (path.take n)).sum

/-- the line owed to the node at `path`, when the root is rendered at offset `off` with in-label `inb`:
    its own text, indented by `off` + the prefix widths of its proper ancestors -/
def lineAt (off : Nat) (inb : Option Bytes) (t : FTree) (path : List Nat) : Bytes :=
  match nodeAt inb t path with
  | some (l, c) => spaces (off + indentAt inb t path) ++ (lineOf l c).1
  | none => []
end FTree

/-- `preBefore a b`: position `a` comes before position `b` in pre-order: `a` is a proper prefix of `b` (`a` lies
    above `b`), or at the first place where they differ `a` takes the smaller branch number -/
def preBefore : List Nat → List Nat → Prop
  | _, [] => False
  | [], _ :: _ => True
  | i :: a, j :: b => i < j ∨ (i = j ∧ preBefore a b)
end Extras

namespace X02L
open FTree

theorem nodeAt_sub : ∀ (p : List Nat) (t : FTree) (inb : Option Bytes), (nodeAt inb t p).map (·.2) = sub t p
  | [], t, inb => rfl
  | k :: p, t, inb => by
    simp only [nodeAt, sub]
    cases t.branches[k]? with
    | none => rfl
    | some x => simp [nodeAt_sub p x.2]

theorem indentAt_cons (inb : Option Bytes) (t : FTree) (k : Nat) (q : List Nat) (x : Bytes × FTree)
    (h : t.branches[k]? = some x) :
    indentAt inb t (k :: q) = (lineOf inb t).2 + indentAt (some x.1) x.2 q := by
  simp only [indentAt, List.length_cons, List.range_succ_eq_map, List.map_cons, List.take_zero, List.sum_cons,
    List.map_map]
  congr 2
  apply List.map_congr_left
  intro n _
  simp [widthAt, nodeAt, h]

theorem lineAt_cons (off : Nat) (inb : Option Bytes) (t : FTree) (k : Nat) (q : List Nat) (x : Bytes × FTree)
    (h : t.branches[k]? = some x) :
    lineAt off inb t (k :: q) = lineAt (off + (lineOf inb t).2) (some x.1) x.2 q := by
  simp only [lineAt, nodeAt, h, Option.bind_some, indentAt_cons inb t k q x h, Nat.add_assoc]

mutual
theorem lines_eq_map : ∀ (t : FTree) (off : Nat) (inb : Option Bytes),
    FTree.lines off inb t = (prePaths t).map (lineAt off inb t)
  | .node i f l bs, off, inb => by
    have h := linesList_eq_map bs [] (.node i f l bs) off inb rfl
    simp only [List.length_nil] at h
    simp only [FTree.lines, prePaths, List.map_cons, h]
    simp [lineAt, nodeAt, indentAt]
theorem linesList_eq_map : ∀ (bs pre : List (Bytes × FTree)) (t : FTree) (off : Nat) (inb : Option Bytes),
    t.branches = pre ++ bs →
    FTree.linesList (off + (lineOf inb t).2) bs = (prePathsList pre.length bs).map (lineAt off inb t)
  | [], pre, t, off, inb, _ => by simp [FTree.linesList, prePathsList]
  | (lbl, c) :: r, pre, t, off, inb, hb => by
    have h2 := linesList_eq_map r (pre ++ [(lbl, c)]) t off inb (by simp [hb])
    simp only [List.length_append, List.length_cons, List.length_nil, Nat.zero_add] at h2
    simp only [FTree.linesList, prePathsList, List.map_append, List.map_map, h2, lines_eq_map c]
    congr 1
    apply List.map_congr_left
    intro q _
    have hk : t.branches[pre.length]? = some (lbl, c) := by simp [hb]
    simp [lineAt_cons off inb t pre.length q (lbl, c) hk]
end

mutual
theorem mem_prePaths : ∀ (t : FTree) (p : List Nat), p ∈ prePaths t ↔ (sub t p).isSome
  | .node i f l bs, p => by
    simp only [prePaths, List.mem_cons, mem_prePathsList bs 0 p]
    cases p with
    | nil => simp [sub]
    | cons k q =>
      simp only [sub, branches, Nat.zero_add, List.cons.injEq, reduceCtorEq, false_or]
      constructor
      · rintro ⟨j, q', ⟨rfl, rfl⟩, x, hx, hs⟩; simp [hx, hs]
      · intro h
        cases hx : bs[k]? with
        | none => simp [hx] at h
        | some x => exact ⟨k, q, ⟨rfl, rfl⟩, x, hx, by simpa [hx] using h⟩
theorem mem_prePathsList : ∀ (bs : List (Bytes × FTree)) (k : Nat) (p : List Nat),
    p ∈ prePathsList k bs ↔ ∃ j q, p = (k + j) :: q ∧ ∃ x, bs[j]? = some x ∧ (sub x.2 q).isSome
  | [], k, p => by simp [prePathsList]
  | (lbl, c) :: r, k, p => by
    simp only [prePathsList, List.mem_append, List.mem_map, mem_prePaths c, mem_prePathsList r (k + 1) p]
    constructor
    · rintro (⟨q, hq, rfl⟩ | ⟨j, q, rfl, x, hx, hs⟩)
      · exact ⟨0, q, rfl, (lbl, c), rfl, hq⟩
      · exact ⟨j + 1, q, by simp; omega, x, by simpa using hx, hs⟩
    · rintro ⟨j, q, rfl, x, hx, hs⟩
      cases j with
      | zero =>
        simp only [List.getElem?_cons_zero, Option.some.injEq] at hx; subst hx
        exact Or.inl ⟨q, hs, rfl⟩
      | succ j => exact Or.inr ⟨j, q, by simp; omega, x, by simpa using hx, hs⟩
end

theorem preBefore_cons (k : Nat) {a b : List Nat} (h : preBefore a b) : preBefore (k :: a) (k :: b) := by
  simp [preBefore, h]

theorem preBefore_irrefl : ∀ a : List Nat, ¬ preBefore a a
  | [] => by simp [preBefore]
  | i :: a => by simp [preBefore, preBefore_irrefl a]

mutual
theorem prePaths_sorted : ∀ t : FTree, (prePaths t).Pairwise preBefore
  | .node i f l bs => by
    simp only [prePaths, List.pairwise_cons]
    refine ⟨?_, prePathsList_sorted bs 0⟩
    intro a ha
    obtain ⟨j, q, rfl, _⟩ := (mem_prePathsList bs 0 a).mp ha
    simp [preBefore]
theorem prePathsList_sorted : ∀ (bs : List (Bytes × FTree)) (k : Nat), (prePathsList k bs).Pairwise preBefore
  | [], k => by simp [prePathsList]
  | (lbl, c) :: r, k => by
    simp only [prePathsList]
    rw [List.pairwise_append, List.pairwise_map]
    refine ⟨(prePaths_sorted c).imp (fun h => preBefore_cons k h), prePathsList_sorted r (k + 1), ?_⟩
    intro a ha b hb
    obtain ⟨q, _, rfl⟩ := List.mem_map.mp ha
    obtain ⟨j, q', rfl, _⟩ := (mem_prePathsList r (k + 1) b).mp hb
    simp only [preBefore]; omega
end

end X02L

/-- the lines of `toStrings`/`String` are, in order, the lines owed to the positions `prePaths t`: the text of the node
    at the position, indented by `off` + the sum of the prefix widths of its proper ancestors -/
theorem X02_lines_paths (off : Nat) (inb : Option Bytes) (t : FTree) :
    FTree.lines off inb t = (prePaths t).map (lineAt off inb t) :=
  X02L.lines_eq_map t off inb

/-- `lineAt` spelled out for a position inside the tree (`nodeAt` finds the node of `sub` and its in-label) -/
theorem X02_lineAt (off : Nat) (inb : Option Bytes) (t : FTree) (p : List Nat) (l : Option Bytes) (c : FTree)
    (h : nodeAt inb t p = some (l, c)) :
    sub t p = some c ∧
    lineAt off inb t p = spaces (off + ((List.range p.length).map fun n => widthAt inb t (p.take n)).sum)
                            ++ (FTree.lineOf l c).1 := by
  refine ⟨?_, by simp [lineAt, h, indentAt]⟩
  rw [← X02L.nodeAt_sub p t inb, h]; rfl

/-- every position of the tree exactly once, parents before children, siblings in branch order -/
theorem X02_prePaths_complete (t : FTree) (p : List Nat) : p ∈ prePaths t ↔ (sub t p).isSome :=
  X02L.mem_prePaths t p
theorem X02_prePaths_sorted (t : FTree) : (prePaths t).Pairwise preBefore := X02L.prePaths_sorted t
theorem X02_prePaths_nodup (t : FTree) : (prePaths t).Nodup :=
  (X02L.prePaths_sorted t).imp fun {a b} (h : preBefore a b) (e : a = b) => by
    subst e; exact X02L.preBefore_irrefl a h

example : prePaths exT = [[], [0], [0, 0], [0, 0, 0], [0, 0, 1], [1], [1, 0]] ∧
    nodeAt none exT [0, 0, 1] = some (some (b "1"), leafT "06") ∧
    (widthAt none exT [] = 3 ∧ widthAt none exT [0] = 7 ∧ widthAt none exT [0, 0] = 7) ∧
    indentAt none exT [0, 0, 1] = 17 ∧
    lineAt 0 none exT [0, 0, 1] = b "                 -1->#06(foo)=leaf" :=
  ⟨by decide +kernel, rfl, by decide +kernel, by decide +kernel, by decide +kernel⟩

/-! ### end to end -/

/-- `DepthFirst` calls the callback once for every position of the tree `Child(nil, nil)`, in post-order, with the
    parent node, the branch label and the node of that position -/
theorem X02_depthFirst_paths (nilT root : FTree) (fuel : Nat) (h : root.height ≤ fuel) :
    depthFirstTop (FTree.iface nilT root) fuel = some ((postPaths root).map (visitAt root)) := by
  rw [X02_depthFirst nilT root fuel h, X02_post_paths]

/-- `String` is one line for every position of the tree, in pre-order, each indented by the prefix widths of its
    proper ancestors, joined by newlines -/
theorem X02_string_paths (nilT root : FTree) (fuel : Nat) (h : nilT.height ≤ fuel) :
    treeString (FTree.iface nilT root) fuel = some (joinSep [10] ((prePaths nilT).map (lineAt 0 none nilT))) := by
  rw [X02_string nilT root fuel h, X02_lines_paths]

example : depthFirstTop (FTree.iface exT exT3) 2
    = some [visitAt exT3 [0], visitAt exT3 [1], visitAt exT3 []] := by
  rw [X02_depthFirst_paths _ _ _ (by decide +kernel)]; rfl

end Low
