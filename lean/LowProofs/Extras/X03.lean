import LowModel.Extras.ToSlice
/-
  X03 -- typehelper.ToSlice: the result has one cell per element, cell i holds element i (no cell is left nil by the
  loop), and the function panics exactly when the argument is not a slice.
-/
namespace Low.X03L
open Low.Extras

/-- loop invariant: with the first `i` cells written and `n = len - i` iterations left the loop ends with all cells written -/
theorem loop_inv {α} (es : List α) : ∀ (n i : Nat), i + n = es.length →
    toSliceLoop es n i ((es.take i).map some ++ List.replicate n none) = es.map some
  | 0, i, h => by
    simp only [toSliceLoop, List.replicate_zero, List.append_nil]
    rw [List.take_of_length_le (by omega)]
  | n + 1, i, h => by
    simp only [toSliceLoop]
    have hi : i < es.length := by omega
    have hset : ((es.take i).map some ++ List.replicate (n + 1) none).set i es[i]?
        = (es.take (i + 1)).map some ++ List.replicate n none := by
      have hl : ((es.take i).map some).length = i := by simp; omega
      rw [List.set_append_right _ _ (by omega), hl, Nat.sub_self, List.replicate_succ, List.set_cons_zero,
        List.take_add_one, List.map_append, List.append_assoc]
      congr 1
      rw [List.getElem?_eq_getElem hi]; rfl
    rw [hset]
    exact loop_inv es n (i + 1) (by omega)

end Low.X03L

namespace Low
open Low.Extras

/-- ToSlice of a slice: every cell written, cell i = element i -/
theorem X03_toSlice {α} (es : List α) : toSlice (.slice es) = some (es.map some) := by
  have := X03L.loop_inv es es.length 0 (by omega)
  simp only [List.take_zero, List.map_nil, List.nil_append] at this
  simp only [toSlice, this]

example : toSlice (.slice [7, 8, 9]) = some [some 7, some 8, some 9] := by decide

/-- the result has the length of the argument -/
theorem X03_length {α} (es : List α) : ∃ r, toSlice (TSArg.slice es) = some r ∧ r.length = es.length :=
  ⟨_, X03_toSlice es, by simp⟩

example : ∃ r, toSlice (TSArg.slice [7, 8, 9]) = some r ∧ r.length = 3 := X03_length [7, 8, 9]

/-- cell `i` of the result is (the boxed) element `i` -/
theorem X03_elem {α} (es : List α) (i : Nat) (h : i < es.length) :
    ∃ r, toSlice (TSArg.slice es) = some r ∧ r[i]? = some (some es[i]) :=
  ⟨_, X03_toSlice es, by simp [h]⟩

example : ∃ r, toSlice (TSArg.slice [7, 8, 9]) = some r ∧ r[2]? = some (some 9) := X03_elem [7, 8, 9] 2 (by decide)

/-- panic iff not a slice -/
theorem X03_panic {α} (a : TSArg α) : toSlice a = none ↔ a = .other := by
  cases a with
  | slice es => simp [X03_toSlice]
  | other => simp [toSlice]

example : toSlice (TSArg.other : TSArg Nat) = none := by decide
example : toSlice (TSArg.slice ([] : List Nat)) ≠ none := by decide

end Low
