import LowProofs.Extras.X04Lemmas
import LowProofs.Props.C20
/-
  X04 (more) -- size.stat: the number on the first line is the structural sum of property C20; a larger depth only
  adds lines; a `maxItem` beyond every length changes nothing; the number of lines when nothing is cut.
-/
namespace Low.Extras

mutual
/-- the largest slice / array / map length anywhere in the value (map keys and values that `MapIndex` does not find
    included, although `stat` does not walk them: "anywhere") -/
def SV.maxLen : SV → Nat
  | .scalar _ => 0
  | .str _ => 0
  | .arr es => max es.length (SV.maxLenList es)
  | .slice es => max es.length (SV.maxLenList es)
  | .map ps => max ps.length (SV.maxLenEntries ps)
  | .ptr none => 0
  | .ptr (some v) => v.maxLen
  | .iface none => 0
  | .iface (some v) => v.maxLen
  | .struct fs => SV.maxLenFields fs
  | .unsupported => 0
/-- the largest `maxLen` of the elements -/
def SV.maxLenList : List SV → Nat
  | [] => 0
  | v :: r => max v.maxLen (SV.maxLenList r)
/-- the largest `maxLen` of the keys and values -/
def SV.maxLenEntries : List (Bytes × SV × SV × Bool) → Nat
  | [] => 0
  | (_, k, v, _) :: r => max (max k.maxLen v.maxLen) (SV.maxLenEntries r)
/-- the largest `maxLen` of the field values -/
def SV.maxLenFields : List (Bytes × SV) → Nat
  | [] => 0
  | (_, v) :: r => max v.maxLen (SV.maxLenFields r)
end

mutual
/-- the number of lines `stat` prints when nothing is cut: one for the value itself plus the lines of the parts it
    walks -- elements, map values found (one `<nil>` line for a value `MapIndex` does not find), the pointee, the
    dynamic value (one `<nil>` line for a nil interface), the fields; map keys are not walked -/
def SV.statCount : SV → Nat
  | .scalar _ => 1
  | .str _ => 1
  | .arr es => 1 + SV.countList es
  | .slice es => 1 + SV.countList es
  | .map ps => 1 + SV.countEntries ps
  | .ptr none => 1
  | .ptr (some v) => 1 + v.statCount
  | .iface none => 2
  | .iface (some v) => 1 + v.statCount
  | .struct fs => 1 + SV.countFields fs
  | .unsupported => 1
def SV.countList : List SV → Nat
  | [] => 0
  | v :: r => v.statCount + SV.countList r
def SV.countEntries : List (Bytes × SV × SV × Bool) → Nat
  | [] => 0
  | (_, _, v, true) :: r => v.statCount + SV.countEntries r
  | (_, _, _, false) :: r => 1 + SV.countEntries r
def SV.countFields : List (Bytes × SV) → Nat
  | [] => 0
  | (_, v) :: r => v.statCount + SV.countFields r
end

end Low.Extras

namespace Low.X04L
open Low.Extras

theorem keep_keep (d d' : Int) (h : d ≤ d') (ls : List StatLine) : keep d (keep d' ls) = keep d ls := by
  simp only [keep, List.filter_filter]
  apply List.filter_congr
  intro x _
  by_cases hx : (x.indent : Int) ≤ d
  · have : (x.indent : Int) ≤ d' := by omega
    simp [hx, this]
  · simp [hx]

/-! ### `maxItem` beyond every length -/

theorem stat_congr_m (v : SV) (d m m' : Int) (hk : kids v (d-1) m = kids v (d-1) m') : stat v d m = stat v d m' := by
  rw [stat_eq, stat_eq, hk]

mutual
theorem kids_m (m m' : Int) : ∀ (v : SV) (d : Int), (v.maxLen : Int) ≤ m → (v.maxLen : Int) ≤ m' →
    kids v d m = kids v d m'
  | .scalar _, _, _, _ => rfl
  | .str _, _, _, _ => rfl
  | .arr es, d, h, h' => by
    rw [SV.maxLen] at h h'
    exact elems_m m m' es 0 d (by omega) (by omega) (by omega) (by omega)
  | .slice es, d, h, h' => by
    rw [SV.maxLen] at h h'
    exact elems_m m m' es 0 d (by omega) (by omega) (by omega) (by omega)
  | .map ps, d, h, h' => by
    rw [SV.maxLen] at h h'
    exact entries_m m m' ps 0 d (by omega) (by omega) (by omega) (by omega)
  | .ptr none, _, _, _ => rfl
  | .ptr (some p), d, h, h' => by
    rw [SV.maxLen] at h h'
    exact stat_congr_m p d m m' (kids_m m m' p (d-1) h h')
  | .iface none, _, _, _ => rfl
  | .iface (some p), d, h, h' => by
    rw [SV.maxLen] at h h'
    exact stat_congr_m p d m m' (kids_m m m' p (d-1) h h')
  | .struct fs, d, h, h' => by
    rw [SV.maxLen] at h h'
    exact fields_m m m' fs d h h'
  | .unsupported, _, _, _ => rfl
theorem elems_m (m m' : Int) : ∀ (es : List SV) (i : Nat) (d : Int),
    ((i + es.length : Nat) : Int) ≤ m → ((i + es.length : Nat) : Int) ≤ m' →
    (SV.maxLenList es : Int) ≤ m → (SV.maxLenList es : Int) ≤ m' → statElems es i d m = statElems es i d m'
  | [], i, d, _, _, _, _ => by rw [statElems_nil, statElems_nil]
  | e :: r, i, d, h1, h1', h2, h2' => by
    rw [SV.maxLenList] at h2 h2'
    simp only [List.length_cons] at h1 h1'
    rw [statElems_cons, statElems_cons, if_pos (by omega), if_pos (by omega),
      stat_congr_m e d m m' (kids_m m m' e (d-1) (by omega) (by omega)),
      elems_m m m' r (i+1) d (by omega) (by omega) (by omega) (by omega)]
theorem entries_m (m m' : Int) : ∀ (ps : List (Bytes × SV × SV × Bool)) (i : Nat) (d : Int),
    ((i + ps.length : Nat) : Int) ≤ m → ((i + ps.length : Nat) : Int) ≤ m' →
    (SV.maxLenEntries ps : Int) ≤ m → (SV.maxLenEntries ps : Int) ≤ m' → statEntries ps i d m = statEntries ps i d m'
  | [], i, d, _, _, _, _ => by rw [statEntries_nil, statEntries_nil]
  | (lbl, k, v, f) :: r, i, d, h1, h1', h2, h2' => by
    rw [SV.maxLenEntries] at h2 h2'
    simp only [List.length_cons] at h1 h1'
    rw [statEntries_cons, statEntries_cons, if_pos (by omega), if_pos (by omega), entryLines, entryLines,
      stat_congr_m v d m m' (kids_m m m' v (d-1) (by omega) (by omega)),
      entries_m m m' r (i+1) d (by omega) (by omega) (by omega) (by omega)]
theorem fields_m (m m' : Int) : ∀ (fs : List (Bytes × SV)) (d : Int),
    (SV.maxLenFields fs : Int) ≤ m → (SV.maxLenFields fs : Int) ≤ m' → statFields fs d m = statFields fs d m'
  | [], d, _, _ => by rw [statFields_nil, statFields_nil]
  | (n, v) :: r, d, h2, h2' => by
    rw [SV.maxLenFields] at h2 h2'
    rw [statFields_cons, statFields_cons, stat_congr_m v d m m' (kids_m m m' v (d-1) (by omega) (by omega)),
      fields_m m m' r d (by omega) (by omega)]
end

/-! ### the number of lines when nothing is cut -/

theorem setLabel_length (l : Bytes) (a : List StatLine) : (setLabel l a).length = a.length := by
  cases a <;> rfl

theorem stat_count_of_kids (v : SV) (m : Int) (c : Nat)
    (hk : ∀ d : Int, d < 0 → ∀ subs, kids v d m = some subs → subs.length + 1 = c) :
    ∀ d : Int, d < 0 → ∀ ls, stat v d m = some ls → ls.length = c := by
  intro d hd ls h
  obtain ⟨sz, subs, _, rfl, _, h1⟩ := stat_shape v d m ls h
  have := hk (d-1) (by omega) subs (h1 (by omega))
  simp only [List.length_cons, List.length_map, this]

theorem combine_length (lbl : Bytes) (x y : Option (List StatLine)) (cx cy : Nat)
    (hx : ∀ a, x = some a → a.length = cx) (hy : ∀ b, y = some b → b.length = cy) (subs)
    (h : (x.bind fun a => y.map fun b => setLabel lbl a ++ b) = some subs) : subs.length = cx + cy := by
  cases x with
  | none => simp at h
  | some a =>
    cases y with
    | none => simp at h
    | some b =>
      simp only [Option.bind_some, Option.map_some, Option.some.injEq] at h
      subst h
      rw [List.length_append, setLabel_length, hx a rfl, hy b rfl]

mutual
theorem kids_count (m : Int) : ∀ (v : SV) (d : Int), d < 0 → (v.maxLen : Int) ≤ m →
    ∀ subs, kids v d m = some subs → subs.length + 1 = v.statCount
  | .scalar _, _, _, _, subs, h => by
    have h' : ([] : List StatLine) = subs := Option.some.inj h
    subst h'; rfl
  | .str _, _, _, _, subs, h => by
    have h' : ([] : List StatLine) = subs := Option.some.inj h
    subst h'; rfl
  | .arr es, d, hd, hm, subs, h => by
    rw [SV.maxLen] at hm
    have := elems_count m es 0 d hd (by omega) (by omega) subs h
    rw [SV.statCount]; omega
  | .slice es, d, hd, hm, subs, h => by
    rw [SV.maxLen] at hm
    have := elems_count m es 0 d hd (by omega) (by omega) subs h
    rw [SV.statCount]; omega
  | .map ps, d, hd, hm, subs, h => by
    rw [SV.maxLen] at hm
    have := entries_count m ps 0 d hd (by omega) (by omega) subs h
    rw [SV.statCount]; omega
  | .ptr none, _, _, _, subs, h => by
    have h' : ([] : List StatLine) = subs := Option.some.inj h
    subst h'; rfl
  | .ptr (some p), d, hd, hm, subs, h => by
    rw [SV.maxLen] at hm
    have := stat_count_of_kids p m p.statCount (fun d' hd' => kids_count m p d' hd' hm) d hd subs h
    rw [SV.statCount]; omega
  | .iface none, _, _, _, subs, h => by
    have h' : [(⟨0, none, none⟩ : StatLine)] = subs := Option.some.inj h
    subst h'; rfl
  | .iface (some p), d, hd, hm, subs, h => by
    rw [SV.maxLen] at hm
    have := stat_count_of_kids p m p.statCount (fun d' hd' => kids_count m p d' hd' hm) d hd subs h
    rw [SV.statCount]; omega
  | .struct fs, d, hd, hm, subs, h => by
    rw [SV.maxLen] at hm
    have := fields_count m fs d hd hm subs h
    rw [SV.statCount]; omega
  | .unsupported, _, _, _, subs, h => by
    have h' : ([] : List StatLine) = subs := Option.some.inj h
    subst h'; rfl
theorem elems_count (m : Int) : ∀ (es : List SV) (i : Nat) (d : Int), d < 0 →
    ((i + es.length : Nat) : Int) ≤ m → (SV.maxLenList es : Int) ≤ m →
    ∀ subs, statElems es i d m = some subs → subs.length = SV.countList es
  | [], i, d, _, _, _, subs, h => by
    rw [statElems_nil] at h; cases h; rfl
  | e :: r, i, d, hd, h1, h2, subs, h => by
    rw [SV.maxLenList] at h2
    simp only [List.length_cons] at h1
    rw [statElems_cons, if_pos (by omega)] at h
    rw [SV.countList]
    exact combine_length _ _ _ _ _
      (stat_count_of_kids e m e.statCount (fun d' hd' => kids_count m e d' hd' (by omega)) d hd)
      (elems_count m r (i+1) d hd (by omega) (by omega)) subs h
theorem entries_count (m : Int) : ∀ (ps : List (Bytes × SV × SV × Bool)) (i : Nat) (d : Int), d < 0 →
    ((i + ps.length : Nat) : Int) ≤ m → (SV.maxLenEntries ps : Int) ≤ m →
    ∀ subs, statEntries ps i d m = some subs → subs.length = SV.countEntries ps
  | [], i, d, _, _, _, subs, h => by
    rw [statEntries_nil] at h; cases h; rfl
  | (lbl, k, v, true) :: r, i, d, hd, h1, h2, subs, h => by
    rw [SV.maxLenEntries] at h2
    simp only [List.length_cons] at h1
    rw [statEntries_cons, if_pos (by omega), entryLines, if_pos rfl] at h
    rw [SV.countEntries]
    exact combine_length _ _ _ _ _
      (stat_count_of_kids v m v.statCount (fun d' hd' => kids_count m v d' hd' (by omega)) d hd)
      (entries_count m r (i+1) d hd (by omega) (by omega)) subs h
  | (lbl, k, v, false) :: r, i, d, hd, h1, h2, subs, h => by
    rw [SV.maxLenEntries] at h2
    simp only [List.length_cons] at h1
    rw [statEntries_cons, if_pos (by omega), entryLines, if_neg (by simp)] at h
    rw [SV.countEntries]
    exact combine_length _ _ _ _ _ (fun a ha => by cases ha; rfl)
      (entries_count m r (i+1) d hd (by omega) (by omega)) subs h
theorem fields_count (m : Int) : ∀ (fs : List (Bytes × SV)) (d : Int), d < 0 → (SV.maxLenFields fs : Int) ≤ m →
    ∀ subs, statFields fs d m = some subs → subs.length = SV.countFields fs
  | [], d, _, _, subs, h => by
    rw [statFields_nil] at h; cases h; rfl
  | (n, v) :: r, d, hd, h2, subs, h => by
    rw [SV.maxLenFields] at h2
    rw [statFields_cons] at h
    rw [SV.countFields]
    exact combine_length _ _ _ _ _
      (stat_count_of_kids v m v.statCount (fun d' hd' => kids_count m v d' hd' (by omega)) d hd)
      (fields_count m r d hd (by omega)) subs h
end

end Low.X04L

namespace Low
open Low.Extras

/-- map[string][]any{"k": {nil, int32(7)}, "n": …(not found)} beside a pointer to an array, in a struct -/
def X04_ex2 : SV :=
  .struct [([109], .map [([107], .str 1, .slice [.iface none, .iface (some (.scalar 4))], true),
                         ([110], .str 1, .slice [.scalar 1, .scalar 1, .scalar 1], false)]),
           ([112], .ptr (some (.arr [.scalar 2, .scalar 2])))]

/-- the number on the first line is the structural sum of property C20 (the number `Low.C20_stat` speaks about),
    whatever depth and maxItem -/
theorem X04_head_structSize (v : SV) (d m : Int) (h : v.erase.supported = true) :
    ∃ rest, stat v d m = some (⟨0, none, some (structSize v.erase)⟩ :: rest) := by
  have hs := sizeOf_eq v.erase h
  have hsome := X04L.stat_isSome v d m (by rw [hs]; rfl)
  obtain ⟨ls, hls⟩ := Option.isSome_iff_exists.1 hsome
  obtain ⟨sz, subs, hsz, rfl, _, _⟩ := X04L.stat_shape v d m ls hls
  rw [hs] at hsz
  cases hsz
  exact ⟨subs.map X04L.bump, hls⟩

example : X04_ex2.erase.supported = true ∧ structSize X04_ex2.erase = 141 ∧
    (stat X04_ex2 3 1).map List.head? = some (some ⟨0, none, some 141⟩) := by decide +kernel

/-- a larger depth only adds lines: for 0 ≤ d ≤ d', the lines for d are those for d' with indentation ≤ d -/
theorem X04_depth_mono (v : SV) (d d' m : Int) (hd : 0 ≤ d) (h : d ≤ d') :
    stat v d m = (stat v d' m).map fun ls => ls.filter fun l => decide ((l.indent : Int) ≤ d) := by
  rw [X04L.stat_filter v d m hd, X04L.stat_filter v d' m (by omega)]
  cases stat v (-1) m with
  | none => rfl
  | some ls => exact congrArg some (X04L.keep_keep d d' h ls).symm

example : (stat X04_ex2 2 9).map List.length = some 6 ∧ (stat X04_ex2 3 9).map List.length = some 10 ∧
    stat X04_ex2 2 9 = (stat X04_ex2 3 9).map fun ls => ls.filter fun l => decide ((l.indent : Int) ≤ 2) := by
  decide +kernel

/-- maxItem beyond every length changes nothing: if m and m' are both ≥ every element count inside v (`SV.maxLen`),
    `stat` gives the same lines -/
theorem X04_maxItem_large (v : SV) (d m m' : Int) (h : (v.maxLen : Int) ≤ m) (h' : (v.maxLen : Int) ≤ m') :
    stat v d m = stat v d m' :=
  X04L.stat_congr_m v d m m' (X04L.kids_m m m' v (d-1) h h')

example : X04_ex2.maxLen = 3 ∧ stat X04_ex2 (-1) 3 = stat X04_ex2 (-1) 100 ∧ stat X04_ex2 (-1) 1 ≠ stat X04_ex2 (-1) 3 := by
  decide +kernel

/-- line count with nothing cut (negative depth, maxItem ≥ every length): one line for the value and the lines of
    every part `stat` walks (`SV.statCount`) -/
theorem X04_line_count (v : SV) (d m : Int) (hd : d < 0) (hm : (v.maxLen : Int) ≤ m) (ls)
    (h : stat v d m = some ls) : ls.length = v.statCount :=
  X04L.stat_count_of_kids v m v.statCount (fun d' hd' => X04L.kids_count m v d' hd' hm) d hd ls h

example : X04_ex2.statCount = 12 ∧ (stat X04_ex2 (-1) 3).map List.length = some 12
    ∧ (stat X04_ex2 (-1) 1).map List.length = some 8 ∧ (stat X04_ex2 4 3).map List.length = some 12
    ∧ (stat X04_ex2 3 3).map List.length = some 10 := by
  decide +kernel

end Low
