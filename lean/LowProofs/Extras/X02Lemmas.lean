import LowModel.Extras.Tree
/-
  X02 helper lemmas: package tree (`nodeStr`, `toStrings`, `depthFirst`) over the finite-tree implementation
  `FTree.iface`.
-/
namespace Low.X02L
open Low.Extras

theorem spaces_add (a b : Nat) : spaces (a + b) = spaces a ++ spaces b := by
  simp [spaces]

/-! ### the interface of a finite tree -/

theorem iface_labels (nilT root : FTree) (n : Option FTree) :
    (FTree.iface nilT root).labels n = ((n.getD nilT).branches.zipIdx).map fun x => (x.2, x.1.1) := rfl

theorem labels_length (nilT root : FTree) (n : Option FTree) :
    ((FTree.iface nilT root).labels n).length = (n.getD nilT).branches.length := by
  simp [iface_labels]

theorem iface_child (nilT root : FTree) (n : Option FTree) (pre r : List (Bytes × FTree)) (lbl lbl' : Bytes)
    (c : FTree) (h : (n.getD nilT).branches = pre ++ (lbl, c) :: r) :
    (FTree.iface nilT root).child n (pre.length, lbl') = some c := by
  simp [FTree.iface, h]

/-- `nodeStr` through the interface, for any node value (`none` stands for `nilT`) -/
theorem nodeStr_eq (nilT root : FTree) (n : Option FTree) (inb : Option (Nat × Bytes)) :
    nodeStr (FTree.iface nilT root) inb n = FTree.lineOf (inb.map (·.2)) (n.getD nilT) := by
  have hl := labels_length nilT root n
  generalize hI : FTree.iface nilT root = I at hl
  have h1 : I.nodeID n = (n.getD nilT).id := by subst hI; rfl
  have h2 : I.nodeInfo n = (n.getD nilT).info := by subst hI; rfl
  have h3 : I.leafVal n = (n.getD nilT).leaf := by subst hI; rfl
  have h4 : ∀ b, I.labelInfo b = b.2 := by subst hI; intro b; rfl
  simp only [nodeStr, FTree.lineOf, h1, h2, h3, h4, hl]
  generalize (n.getD nilT) = t
  cases inb <;> cases hleaf : t.leaf <;> by_cases hid : t.id = [] <;>
    by_cases hb : t.branches.length > 1 <;> simp [hid, hb]

/-! ### the specification `lines` -/

mutual
theorem lines_add : ∀ (t : FTree) (a b : Nat) (inb : Option Bytes),
    FTree.lines (a + b) inb t = (FTree.lines b inb t).map (spaces a ++ ·)
  | .node i f l bs, a, b, inb => by
    simp only [FTree.lines, List.map_cons, spaces_add, List.append_assoc]
    rw [Nat.add_assoc, linesList_add bs a]
theorem linesList_add : ∀ (bs : List (Bytes × FTree)) (a b : Nat),
    FTree.linesList (a + b) bs = (FTree.linesList b bs).map (spaces a ++ ·)
  | [], a, b => by simp [FTree.linesList]
  | (lbl, c) :: r, a, b => by
    simp only [FTree.linesList, List.map_append]
    rw [lines_add c a b, linesList_add r a b]
end

/-- the lines of the children at indentation `ind`: each child rendered at 0, concatenated, indented -/
theorem linesList_eq_flatten : ∀ (bs : List (Bytes × FTree)) (ind : Nat),
    FTree.linesList ind bs
      = ((bs.map fun x => FTree.lines 0 (some x.1) x.2).flatten).map (spaces ind ++ ·)
  | [], ind => by simp [FTree.linesList]
  | (lbl, c) :: r, ind => by
    have h := lines_add c ind 0 (some lbl)
    simp only [Nat.add_zero] at h
    simp [FTree.linesList, linesList_eq_flatten r ind, h]

mutual
theorem lines_length : ∀ (t : FTree) (off : Nat) (inb : Option Bytes), (FTree.lines off inb t).length = t.size
  | .node i f l bs, off, inb => by
    simp [FTree.lines, FTree.size, linesList_length bs]; omega
theorem linesList_length : ∀ (bs : List (Bytes × FTree)) (off : Nat), (FTree.linesList off bs).length = FTree.sizeList bs
  | [], off => by simp [FTree.linesList, FTree.sizeList]
  | (lbl, c) :: r, off => by
    simp [FTree.linesList, FTree.sizeList, lines_length c, linesList_length r]
end

/-! ### `toStrings` -/

/-- the loop over the labels: one recursive call per branch, in branch order (`pre` = the branches already done) -/
theorem toStrings_mapM (nilT root : FTree) (fuel : Nat) (n : Option FTree)
    (ih : ∀ (t : FTree) (inb : Option (Nat × Bytes)) (m : Option FTree), m.getD nilT = t → t.height ≤ fuel →
        toStrings (FTree.iface nilT root) fuel inb m = some (FTree.lines 0 (inb.map (·.2)) t)) :
    ∀ (bs pre : List (Bytes × FTree)), (n.getD nilT).branches = pre ++ bs → FTree.heightList bs ≤ fuel →
      ((bs.zipIdx pre.length).map fun x => (x.2, x.1.1)).mapM
          (fun b => toStrings (FTree.iface nilT root) fuel (some b) ((FTree.iface nilT root).child n b))
        = some (bs.map fun x => FTree.lines 0 (some x.1) x.2)
  | [], pre, _, _ => by simp
  | (lbl, c) :: r, pre, hb, hh => by
    simp only [FTree.heightList] at hh
    have hc := iface_child nilT root n pre r lbl lbl c hb
    have h1 := ih c (some (pre.length, lbl)) (some c) rfl (by omega)
    have h2 := toStrings_mapM nilT root fuel n ih r (pre ++ [(lbl, c)]) (by simp [hb]) (by omega)
    simp only [List.length_append, List.length_cons, List.length_nil, Nat.zero_add] at h2
    simp only [List.zipIdx_cons, List.map_cons, List.mapM_cons, hc, h1, h2]
    rfl

theorem toStrings_eq (nilT root : FTree) : ∀ (fuel : Nat) (t : FTree) (inb : Option (Nat × Bytes)) (m : Option FTree),
    m.getD nilT = t → t.height ≤ fuel →
    toStrings (FTree.iface nilT root) fuel inb m = some (FTree.lines 0 (inb.map (·.2)) t)
  | 0, .node .., _, _, _, h => by simp [FTree.height] at h
  | fuel + 1, .node i f l bs, inb, m, hm, h => by
    have hh : FTree.heightList bs ≤ fuel := by simp only [FTree.height] at h; omega
    have hbs : (m.getD nilT).branches = [] ++ bs := by rw [hm]; rfl
    have hM := toStrings_mapM nilT root fuel m (toStrings_eq nilT root fuel) bs [] hbs hh
    have hN := nodeStr_eq nilT root m inb
    rw [hm] at hN
    simp only [toStrings, iface_labels, hbs, List.nil_append, hN]
    simp only [List.length_nil] at hM
    rw [hM]
    simp only [FTree.lines, spaces, List.replicate_zero, List.nil_append, Nat.zero_add]
    rw [linesList_eq_flatten]; rfl

theorem mapM_cons_none_right {α β} (f : α → Option β) (a : α) (as : List α) (h : as.mapM f = none) :
    (a :: as).mapM f = none := by
  simp only [List.mapM_cons, h]; cases f a <;> rfl

theorem mapM_cons_none_left {α β} (f : α → Option β) (a : α) (as : List α) (h : f a = none) :
    (a :: as).mapM f = none := by
  simp only [List.mapM_cons, h]; rfl

theorem toStrings_mapM_none (nilT root : FTree) (fuel : Nat) (n : Option FTree)
    (ih : ∀ (t : FTree) (inb : Option (Nat × Bytes)) (m : Option FTree), m.getD nilT = t → fuel < t.height →
        toStrings (FTree.iface nilT root) fuel inb m = none) :
    ∀ (bs pre : List (Bytes × FTree)), (n.getD nilT).branches = pre ++ bs → fuel < FTree.heightList bs →
      ((bs.zipIdx pre.length).map fun x => (x.2, x.1.1)).mapM
          (fun b => toStrings (FTree.iface nilT root) fuel (some b) ((FTree.iface nilT root).child n b))
        = none
  | [], pre, _, hh => by simp [FTree.heightList] at hh
  | (lbl, c) :: r, pre, hb, hh => by
    simp only [FTree.heightList] at hh
    have hc := iface_child nilT root n pre r lbl lbl c hb
    simp only [List.zipIdx_cons, List.map_cons]
    by_cases h : fuel < c.height
    · apply mapM_cons_none_left
      simp only [hc]
      exact ih c _ (some c) rfl h
    · apply mapM_cons_none_right
      have h2 := toStrings_mapM_none nilT root fuel n ih r (pre ++ [(lbl, c)]) (by simp [hb]) (by omega)
      simpa only [List.length_append, List.length_cons, List.length_nil, Nat.zero_add] using h2

theorem toStrings_none (nilT root : FTree) : ∀ (fuel : Nat) (t : FTree) (inb : Option (Nat × Bytes)) (m : Option FTree),
    m.getD nilT = t → fuel < t.height → toStrings (FTree.iface nilT root) fuel inb m = none
  | 0, _, _, _, _, _ => rfl
  | fuel + 1, .node i f l bs, inb, m, hm, h => by
    have hh : fuel < FTree.heightList bs := by simp only [FTree.height] at h; omega
    have hbs : (m.getD nilT).branches = [] ++ bs := by rw [hm]; rfl
    have hM := toStrings_mapM_none nilT root fuel m (toStrings_none nilT root fuel) bs [] hbs hh
    simp only [List.length_nil] at hM
    simp only [toStrings, iface_labels, hbs, List.nil_append]
    rw [hM]

/-! ### `depthFirst` -/

mutual
theorem post_length : ∀ (t : FTree) (p : Option FTree) (l : Option (Nat × Bytes)), (FTree.post p l t).length = t.size
  | .node i f l bs, p, lb => by
    simp [FTree.post, FTree.size, postList_length bs]; omega
theorem postList_length : ∀ (bs : List (Bytes × FTree)) (p : FTree) (k : Nat),
    (FTree.postList p k bs).length = FTree.sizeList bs
  | [], p, k => by simp [FTree.postList, FTree.sizeList]
  | (lbl, c) :: r, p, k => by
    simp [FTree.postList, FTree.sizeList, post_length c, postList_length r]
end

theorem depthFirst_mapM (nilT root : FTree) (fuel : Nat) (t : FTree)
    (ih : ∀ (c : FTree) (p : Option FTree) (l : Option (Nat × Bytes)), c.height ≤ fuel →
        depthFirst (FTree.iface nilT root) fuel (p.map some) l (some c) = some (FTree.post p l c)) :
    ∀ (bs pre : List (Bytes × FTree)), t.branches = pre ++ bs → FTree.heightList bs ≤ fuel →
      (((bs.zipIdx pre.length).map fun x => (x.2, x.1.1)).mapM
          (fun b => depthFirst (FTree.iface nilT root) fuel (some (some t)) (some b)
                      ((FTree.iface nilT root).child (some t) b))).map List.flatten
        = some (FTree.postList t pre.length bs)
  | [], pre, _, _ => by simp [FTree.postList]
  | (lbl, c) :: r, pre, hb, hh => by
    simp only [FTree.heightList] at hh
    have hc := iface_child nilT root (some t) pre r lbl lbl c hb
    have h1 := ih c (some t) (some (pre.length, lbl)) (by omega)
    have h2 := depthFirst_mapM nilT root fuel t ih r (pre ++ [(lbl, c)]) (by simp [hb]) (by omega)
    simp only [List.length_append, List.length_cons, List.length_nil, Nat.zero_add] at h2
    obtain ⟨subs, hs, hf⟩ := Option.map_eq_some_iff.mp h2
    simp only [Option.map_some] at h1
    simp only [List.zipIdx_cons, List.map_cons, List.mapM_cons, hc, h1, hs, FTree.postList]
    simp [← hf]

theorem depthFirst_eq (nilT root : FTree) : ∀ (fuel : Nat) (t : FTree) (p : Option FTree) (l : Option (Nat × Bytes)),
    t.height ≤ fuel → depthFirst (FTree.iface nilT root) fuel (p.map some) l (some t) = some (FTree.post p l t)
  | 0, .node .., _, _, h => by simp [FTree.height] at h
  | fuel + 1, .node i f lf bs, p, l, h => by
    have hh : FTree.heightList bs ≤ fuel := by simp only [FTree.height] at h; omega
    have hM := depthFirst_mapM nilT root fuel (.node i f lf bs) (depthFirst_eq nilT root fuel) bs [] rfl hh
    simp only [List.length_nil] at hM
    obtain ⟨subs, hs, hf⟩ := Option.map_eq_some_iff.mp hM
    simp only [depthFirst, iface_labels, Option.getD_some, FTree.branches]
    rw [hs]
    simp [FTree.post, hf]

theorem depthFirst_mapM_none (nilT root : FTree) (fuel : Nat) (t : FTree)
    (ih : ∀ (c : FTree) (p : Option (Option FTree)) (l : Option (Nat × Bytes)), fuel < c.height →
        depthFirst (FTree.iface nilT root) fuel p l (some c) = none) :
    ∀ (bs pre : List (Bytes × FTree)), t.branches = pre ++ bs → fuel < FTree.heightList bs →
      ((bs.zipIdx pre.length).map fun x => (x.2, x.1.1)).mapM
          (fun b => depthFirst (FTree.iface nilT root) fuel (some (some t)) (some b)
                      ((FTree.iface nilT root).child (some t) b))
        = none
  | [], pre, _, hh => by simp [FTree.heightList] at hh
  | (lbl, c) :: r, pre, hb, hh => by
    simp only [FTree.heightList] at hh
    have hc := iface_child nilT root (some t) pre r lbl lbl c hb
    simp only [List.zipIdx_cons, List.map_cons]
    by_cases h : fuel < c.height
    · apply mapM_cons_none_left
      simp only [hc]
      exact ih c _ _ h
    · apply mapM_cons_none_right
      have h2 := depthFirst_mapM_none nilT root fuel t ih r (pre ++ [(lbl, c)]) (by simp [hb]) (by omega)
      simpa only [List.length_append, List.length_cons, List.length_nil, Nat.zero_add] using h2

theorem depthFirst_none (nilT root : FTree) : ∀ (fuel : Nat) (t : FTree) (p : Option (Option FTree))
    (l : Option (Nat × Bytes)), fuel < t.height → depthFirst (FTree.iface nilT root) fuel p l (some t) = none
  | 0, _, _, _, _ => rfl
  | fuel + 1, .node i f lf bs, p, l, h => by
    have hh : fuel < FTree.heightList bs := by simp only [FTree.height] at h; omega
    have hM := depthFirst_mapM_none nilT root fuel (.node i f lf bs) (depthFirst_none nilT root fuel) bs [] rfl hh
    simp only [List.length_nil] at hM
    simp only [depthFirst, iface_labels, Option.getD_some, FTree.branches]
    rw [hM]

end Low.X02L
