import LowModel.Extras.Fmt
/-
  Helper lemmas for X01 (bitmap.Fmt): `joinSep` of chunks, bit sums, `mapM` over `Option`.
-/
namespace Low.X01L
open Low.Extras

/-! ### `joinSep` with a one-element separator -/

theorem joinSep_cons2 {α} (sep x y : List α) (r : List (List α)) :
    joinSep sep (x :: y :: r) = x ++ sep ++ joinSep sep (y :: r) := rfl

/-- total length: one more than the length = the sum of (chunk length + 1) -/
theorem js_length_sum {α} (s : α) : ∀ (L : List (List α)), L ≠ [] →
    (joinSep [s] L).length + 1 = (L.map fun x => x.length + 1).sum
  | [], h => absurd rfl h
  | [x], _ => by simp [joinSep]
  | x :: y :: r, _ => by
    have ih := js_length_sum s (y :: r) (by simp)
    rw [joinSep_cons2]
    simp only [List.length_append, List.length_cons, List.length_nil, List.map_cons, List.sum_cons] at ih ⊢
    omega

theorem sum_map_const {α} (c : Nat) (f : α → Nat) : ∀ (L : List α), (∀ x ∈ L, f x = c) →
    (L.map f).sum = L.length * c
  | [], _ => by simp
  | x :: r, h => by
    have ih := sum_map_const c f r (fun y hy => h y (List.mem_cons_of_mem _ hy))
    have hx := h x (List.mem_cons_self)
    simp only [List.map_cons, List.sum_cons, List.length_cons, ih, hx, Nat.add_mul]
    omega

/-- chunks of equal length `c` -/
theorem js_length {α} (s : α) (c : Nat) (L : List (List α)) (hL : ∀ x ∈ L, x.length = c) (hne : L ≠ []) :
    (joinSep [s] L).length + 1 = L.length * (c + 1) := by
  rw [js_length_sum s L hne]
  exact sum_map_const (c + 1) _ L (fun x hx => by simp [hL x hx])

/-- position `i` of chunk `e` -/
theorem js_get {α} (s : α) (c : Nat) : ∀ (L : List (List α)) (e i : Nat), (∀ x ∈ L, x.length = c) →
    (he : e < L.length) → i < c → (joinSep [s] L)[e * (c + 1) + i]? = (L[e]'he)[i]?
  | [], _, _, _, he, _ => by simp at he
  | [x], e, i, _, he, _ => by
    have : e = 0 := by simpa using he
    subst this
    simp [joinSep]
  | x :: y :: r, 0, i, hL, _, hi => by
    have hx : x.length = c := hL x (List.mem_cons_self)
    rw [joinSep_cons2, List.append_assoc]
    simp only [Nat.zero_mul, Nat.zero_add, List.getElem_cons_zero]
    exact List.getElem?_append_left (by omega)
  | x :: y :: r, e + 1, i, hL, he, hi => by
    have hx : x.length = c := hL x (List.mem_cons_self)
    have he' : e < (y :: r).length := by simpa using he
    have ih := js_get s c (y :: r) e i (fun z hz => hL z (List.mem_cons_of_mem _ hz)) he' hi
    rw [joinSep_cons2]
    have hlen : (x ++ [s]).length = c + 1 := by simp [hx]
    rw [List.getElem?_append_right (by rw [hlen, Nat.add_mul]; omega)]
    have : (e + 1) * (c + 1) + i - (x ++ [s]).length = e * (c + 1) + i := by
      rw [hlen, Nat.add_mul]; omega
    rw [this, ih]
    simp

/-- the separator after chunk `e` (not the last) -/
theorem js_sep {α} (s : α) (c : Nat) : ∀ (L : List (List α)) (e : Nat), (∀ x ∈ L, x.length = c) →
    e + 1 < L.length → (joinSep [s] L)[e * (c + 1) + c]? = some s
  | [], _, _, he => by simp at he
  | [x], e, _, he => by simp at he
  | x :: y :: r, 0, hL, _ => by
    have hx : x.length = c := hL x (List.mem_cons_self)
    rw [joinSep_cons2, List.append_assoc]
    simp only [Nat.zero_mul, Nat.zero_add]
    rw [List.getElem?_append_right (by omega)]
    simp [hx]
  | x :: y :: r, e + 1, hL, he => by
    have hx : x.length = c := hL x (List.mem_cons_self)
    have he' : e + 1 < (y :: r).length := by simpa using he
    have ih := js_sep s c (y :: r) e (fun z hz => hL z (List.mem_cons_of_mem _ hz)) he'
    rw [joinSep_cons2]
    have hlen : (x ++ [s]).length = c + 1 := by simp [hx]
    rw [List.getElem?_append_right (by rw [hlen, Nat.add_mul]; omega)]
    have : (e + 1) * (c + 1) + c - (x ++ [s]).length = e * (c + 1) + c := by
      rw [hlen, Nat.add_mul]; omega
    rw [this, ih]

/-- chunks of equal positive length are determined by the joined string -/
theorem js_inj {α} (s : α) (c : Nat) (hc : 0 < c) : ∀ (L L' : List (List α)),
    (∀ x ∈ L, x.length = c) → (∀ x ∈ L', x.length = c) → joinSep [s] L = joinSep [s] L' → L = L'
  | [], [], _, _, _ => rfl
  | [], [x'], _, h', h => by
    have := h' x' (List.mem_cons_self)
    have h2 := congrArg List.length h
    simp [joinSep] at h2; omega
  | [], x' :: y' :: r', _, _, h => by
    have h2 := congrArg List.length h
    rw [joinSep_cons2] at h2
    simp [joinSep] at h2
  | [x], [], hL, _, h => by
    have := hL x (List.mem_cons_self)
    have h2 := congrArg List.length h
    simp only [joinSep, List.length_nil] at h2; omega
  | [x], [x'], _, _, h => by simpa [joinSep] using h
  | [x], x' :: y' :: r', hL, hL', h => by
    have h1 := hL x (List.mem_cons_self)
    have h1' := hL' x' (List.mem_cons_self)
    have h2 := congrArg List.length h
    rw [joinSep_cons2] at h2
    simp [joinSep] at h2; omega
  | x :: y :: r, [], _, _, h => by
    have h2 := congrArg List.length h
    rw [joinSep_cons2] at h2
    simp [joinSep] at h2
  | x :: y :: r, [x'], hL, hL', h => by
    have h1 := hL x (List.mem_cons_self)
    have h1' := hL' x' (List.mem_cons_self)
    have h2 := congrArg List.length h
    rw [joinSep_cons2] at h2
    simp [joinSep] at h2; omega
  | x :: y :: r, x' :: y' :: r', hL, hL', h => by
    have h1 := hL x (List.mem_cons_self)
    have h1' := hL' x' (List.mem_cons_self)
    rw [joinSep_cons2, joinSep_cons2, List.append_assoc, List.append_assoc] at h
    have := List.append_inj h (by omega)
    have h3 : joinSep [s] (y :: r) = joinSep [s] (y' :: r') := by simpa using this.2
    have ih := js_inj s c hc (y :: r) (y' :: r') (fun z hz => hL z (List.mem_cons_of_mem _ hz))
      (fun z hz => hL' z (List.mem_cons_of_mem _ hz)) h3
    rw [this.1, ih]

/-! ### bit sums -/

/-- the sum of `2^i` over the `i < n` with `f i` -/
def bitSum (f : Nat → Bool) (n : Nat) : Nat :=
  (List.range n).foldl (fun acc i => acc + (if f i then 2 ^ i else 0)) 0

theorem bitSum_succ (f : Nat → Bool) (n : Nat) :
    bitSum f (n + 1) = bitSum f n + (if f n then 2 ^ n else 0) := by
  simp [bitSum, List.range_succ, List.foldl_append]

theorem bitSum_testBit (x : Nat) : ∀ n, bitSum x.testBit n = x % 2 ^ n
  | 0 => by simp [bitSum, Nat.mod_one]
  | n + 1 => by
    rw [bitSum_succ, bitSum_testBit x n, Nat.mod_pow_succ, Nat.testBit_eq_decide_div_mod_eq]
    have : x / 2 ^ n % 2 = 0 ∨ x / 2 ^ n % 2 = 1 := by omega
    rcases this with h | h <;> simp [h]

theorem bitSum_congr (f g : Nat → Bool) : ∀ n, (∀ i, i < n → f i = g i) → bitSum f n = bitSum g n
  | 0, _ => rfl
  | n + 1, h => by
    rw [bitSum_succ, bitSum_succ, bitSum_congr f g n (fun i hi => h i (by omega)), h n (by omega)]

/-! ### `mapM` over `Option` -/

theorem mapM_map_some {α β γ} (f : β → Option γ) (g : α → β) (k : α → γ) (h : ∀ a, f (g a) = some (k a)) :
    ∀ (l : List α), (l.map g).mapM f = some (l.map k)
  | [] => rfl
  | a :: r => by
    simp [List.mapM_cons, h a, mapM_map_some f g k h r]

theorem mapM_eq_none {β γ} (f : β → Option γ) : ∀ (l : List β), l.mapM f = none ↔ ∃ b ∈ l, f b = none
  | [] => by simp
  | b :: r => by
    have ih := mapM_eq_none f r
    rw [List.mapM_cons]
    cases hb : f b with
    | none => simp [hb]
    | some y =>
      cases hr : r.mapM f with
      | none =>
        have := ih.mp hr
        simp [hb, this]
      | some ys =>
        have : ¬ ∃ b ∈ r, f b = none := fun hh => by
          have := ih.mpr hh; rw [hr] at this; cases this
        simp [hb]
        simpa using this

end Low.X01L
