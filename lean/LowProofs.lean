import LowProofs.Lemmas.Bits
import LowProofs.Lemmas.Count
import LowProofs.Props.C01
