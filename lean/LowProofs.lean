import LowProofs.Lemmas.Bits
import LowProofs.Lemmas.Count
import LowProofs.Lemmas.SumBits
import LowProofs.Props.C01
import LowProofs.Props.C18
import LowProofs.Props.C20
