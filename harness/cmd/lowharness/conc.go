package main

func runConc(tier string, seed int64) int { return 0 }

func exhaustC05(maxh int) int { return 0 }
