package main

import (
	"fmt"
	"math/rand"
	"os"
	"reflect"
	"runtime"
	"sort"
	"strings"
	"sync"
	"sync/atomic"

	"github.com/openacid/low/bitmap"
	"github.com/openacid/low/bitstr"
	"github.com/openacid/low/bitword"
	"github.com/openacid/low/bmtree"
	"github.com/openacid/low/sigbits"
)

// ---------------------------------------------------------------- C19 runtime layer
//
// Shared inputs are built once. A fixed list of calls (closures over the shared inputs, each returning a
// canonical string) is evaluated sequentially, then by many goroutines at once in different orders.
// Every concurrent result must equal the sequential one; the shared inputs and every package-level table
// are compared with snapshots taken before; built with -race, any conflicting access is reported by the
// race detector (exit code 66).

type call struct {
	name string
	f    func() string
}

type snapshot struct {
	name string
	get  func() interface{}
	was  interface{}
}

func deepCopy(v interface{}) interface{} {
	rv := reflect.ValueOf(v)
	switch rv.Kind() {
	case reflect.Slice:
		if rv.IsNil() {
			return v
		}
		c := reflect.MakeSlice(rv.Type(), rv.Len(), rv.Len())
		for i := 0; i < rv.Len(); i++ {
			c.Index(i).Set(reflect.ValueOf(deepCopy(rv.Index(i).Interface())))
		}
		return c.Interface()
	case reflect.String:
		// force a copy of the bytes: a string header copy would alias the same memory
		return string(append([]byte(nil), v.(string)...))
	}
	return v
}

// a result belongs to its caller: after formatting it the caller overwrites it.  If the callee handed out memory it
// still uses (a cache, an argument), other callers see wrong answers or the race detector sees the write.
func scrU64s(r []uint64) string {
	s := showU64s(r)
	for i := range r {
		r[i] = ^r[i]
	}
	return s
}

func scrI32s(r []int32) string {
	s := showI32s(r)
	for i := range r {
		r[i] = ^r[i]
	}
	return s
}

func safeCall(f func() string) (s string) {
	defer func() {
		if r := recover(); r != nil {
			s = "PANIC"
			if os.Getenv("LOWHARNESS_DEBUG") != "" {
				s = fmt.Sprint("PANIC:", r)
			}
		}
	}()
	return f()
}

func runConc(tier string, seed int64) int {
	r := rand.New(rand.NewSource(seed))
	g := &G{r: r, tier: tier}
	nBitmaps, nQueries := 6, 40
	rounds, workers := 3, 8
	if tier == "thorough" {
		nBitmaps, nQueries, rounds, workers = 20, 120, 8, 16
	}

	var calls []call
	var snaps []snapshot
	add := func(name string, f func() string) { calls = append(calls, call{name, f}) }
	share := func(name string, get func() interface{}) {
		snaps = append(snaps, snapshot{name: name, get: get, was: deepCopy(get())})
	}

	// package-level tables
	share("bitmap.Mask", func() interface{} { return bitmap.Mask[:] })
	share("bitmap.RMask", func() interface{} { return bitmap.RMask[:] })
	share("bitmap.MaskUpto", func() interface{} { return bitmap.MaskUpto[:] })
	share("bitmap.RMaskUpto", func() interface{} { return bitmap.RMaskUpto[:] })
	share("bitmap.Bit", func() interface{} { return bitmap.Bit[:] })
	share("bitmap.RBit", func() interface{} { return bitmap.RBit[:] })
	share("bitmap.select8Lookup", func() interface{} { return bitmap.VerifSelect8Lookup() })
	share("bmtree.idxToPath", func() interface{} { return bmtree.VerifIdxToPath() })
	share("bitword.BitWord", func() interface{} {
		ks := []string{}
		for k, v := range bitword.BitWord {
			ks = append(ks, fmt.Sprintf("%d:%+v", k, reflect.ValueOf(v).Elem()))
		}
		sort.Strings(ks)
		return strings.Join(ks, ";")
	})

	// bitmap queries over shared bitmaps and indexes
	for b := 0; b < nBitmaps; b++ {
		ws := g.words(1+g.intn(12), b%2 == 0)
		r64 := bitmap.IndexRank64(ws)
		r128 := bitmap.IndexRank128(ws)
		s32 := bitmap.IndexSelect32(ws)
		s32b, r64t := bitmap.IndexSelect32R64(ws)
		n := popcount(ws)
		L := 64 * len(ws)
		id := fmt.Sprintf("bm%d", b)
		share(id+".words", func() interface{} { return ws })
		share(id+".r64", func() interface{} { return r64 })
		share(id+".r128", func() interface{} { return r128 })
		share(id+".s32", func() interface{} { return s32 })
		share(id+".s32b", func() interface{} { return s32b })
		share(id+".r64t", func() interface{} { return r64t })
		add(id+".IndexRank64", func() string { return scrI32s(bitmap.IndexRank64(ws, true)) })
		add(id+".IndexRank128", func() string { return scrI32s(bitmap.IndexRank128(ws)) })
		add(id+".IndexSelect32", func() string { return scrI32s(bitmap.IndexSelect32(ws)) })
		add(id+".ToArray", func() string { return scrI32s(bitmap.ToArray(ws)) })
		for q := 0; q < nQueries; q++ {
			i := int32(g.intn(L))
			e := i + int32(g.intn(L-int(i)+1))
			add(id+".Rank64", func() string { a, b := bitmap.Rank64(ws, r64, i); return fmt.Sprint(a, b) })
			add(id+".Rank128", func() string { a, b := bitmap.Rank128(ws, r128, i); return fmt.Sprint(a, b) })
			add(id+".NextOne", func() string { return fmt.Sprint(bitmap.NextOne(ws, i, e)) })
			if e >= 1 {
				add(id+".PrevOne", func() string { return fmt.Sprint(bitmap.PrevOne(ws, i, e)) })
			}
			add(id+".Get", func() string {
				return fmt.Sprint(bitmap.Get(ws, i), bitmap.Get1(ws, i), bitmap.SafeGet(ws, i), bitmap.SafeGet1(ws, i-100))
			})
			add(id+".Slice", func() string { return scrU64s(bitmap.Slice(ws, i, e)) })
			w := int32(1) << uint(g.intn(7))
			gi := int32(g.intn(L / int(w)))
			add(id+".Getw", func() string { return fmt.Sprint(bitmap.Getw(ws, gi, w)) })
			if n > 0 {
				k := int32(g.intn(n))
				add(id+".Select32", func() string { a, b := bitmap.Select32(ws, s32, k); return fmt.Sprint(a, b) })
				add(id+".Select32R64", func() string { a, b := bitmap.Select32R64(ws, s32b, r64t, k); return fmt.Sprint(a, b) })
			}
		}
		vs := g.words(5, false)
		share(id+".joinvals", func() interface{} { return vs })
		add(id+".Join", func() string { return scrU64s(bitmap.Join(vs, 16)) })
		add(id+".Fmt", func() string { return bitmap.Fmt(vs) + bitmap.Fmt(ws[0]) + bitmap.Fmt(int32(len(ws))) })
		ps := bitmap.ToArray(ws)
		if len(ps) > 40 {
			ps = ps[:40]
		}
		sizes := []int32{int32(L), 64, 7}
		subs := [][]int32{ps, {0, 63}, {}}
		share(id+".positions", func() interface{} { return ps })
		share(id+".subs", func() interface{} { return subs })
		share(id+".sizes", func() interface{} { return sizes })
		add(id+".Of", func() string { return scrU64s(bitmap.Of(ps)) + scrU64s(bitmap.Of(ps, int32(L+70))) })
		add(id+".OfMany", func() string { return scrU64s(bitmap.OfMany(subs, sizes)) })
	}

	// a large sparse bitmap: zero runs of more than 16384 bits, queries ending strictly inside the bitmap
	{
		l := 900
		ws := make([]uint64, l)
		for _, k := range []int{0, 1, 300, 301, 640, 899} {
			ws[k] = 1<<uint(g.intn(64)) | 1
		}
		r64 := bitmap.IndexRank64(ws)
		share("sparse.words", func() interface{} { return ws })
		share("sparse.r64", func() interface{} { return r64 })
		for q := 0; q < nQueries; q++ {
			i := int32([]int{0, 64, 128, 2 * 64, 302 * 64, 641 * 64}[g.intn(6)] + g.intn(64))
			e := int32([]int{300 * 64, 301*64 + 1, 640 * 64, 640*64 + 1, 899 * 64, 899*64 + 1, 900 * 64}[g.intn(7)])
			if i > e {
				i = 0
			}
			probe := e - int32(g.intn(3))
			add("sparse.NextOne", func() string { return fmt.Sprint(bitmap.NextOne(ws, i, e), bitmap.PrevOne(ws, i, e)) })
			add("sparse.Probe", func() string {
				c, b := bitmap.Rank64(ws, r64, probe%int32(64*l))
				return fmt.Sprint(bitmap.Get1(ws, probe%int32(64*l)), c, b, bitmap.NextOne(ws, probe%int32(64*l), int32(64*l)))
			})
		}
	}

	// a bitmap of more than 65536 bits whose upper part is empty: scans that run over the whole of it
	for _, l := range []int{1100, g.n(5000, 300000)} {
		ws := make([]uint64, l)
		for _, k := range []int{0, 1, 2, 40} {
			ws[k] = g.r.Uint64() | 1
		}
		id := fmt.Sprintf("longscan%d", l)
		share(id+".words", func() interface{} { return ws })
		top := int32(64 * l)
		for q := 0; q < nQueries/2; q++ {
			i := int32(64*41 + g.intn(64*20))
			e := top - int32(g.intn(3)*64) - int32(g.intn(2))
			add(id+".NextOne", func() string {
				return fmt.Sprint(bitmap.NextOne(ws, i, e), bitmap.NextOne(ws, 0, e), bitmap.PrevOne(ws, i, e))
			})
			add(id+".PrevOne", func() string { return fmt.Sprint(bitmap.PrevOne(ws, 0, e), bitmap.PrevOne(ws, 64, top)) })
		}
	}

	// two tree shapes of the same height >= 16 (anything remembered per height meets a different shape)
	for _, t := range []int32{0x1ffff, 0x18001, 0x10101} {
		t := t
		bm := g.words((int(t)+63)/64, false)
		id := fmt.Sprintf("bigtree%x", t)
		share(id+".bm", func() interface{} { return bm })
		add(id+".Decode", func() string {
			ps := bmtree.Decode(t, bm)
			h := uint64(14695981039346656037)
			for i, p := range ps {
				h = (h ^ p) * 1099511628211
				ps[i] = ^p
			}
			return fmt.Sprint(len(ps), h)
		})
	}

	// long strings (block-wise fast paths, lazily built tables)
	for _, n := range []int{64, 100, 300, 1100} {
		sa := string(g.bytes(n, 3))
		sbb := []byte(sa)
		sbb[n-1] ^= 1
		sb := string(sbb)
		id := fmt.Sprintf("long%d", n)
		share(id, func() interface{} { return []string{sa, sb} })
		for _, w := range []int{1, 2, 4, 8} {
			bw := bitword.BitWord[w]
			add(id+".bitword", func() string {
				f := bw.FromStr(sa)
				return fmt.Sprint(outBytes(f), bw.ToStr(f) == sa, bw.FirstDiff(sa, sb, 3, -1), bw.Get(sb, 8*n/w-1))
			})
		}
		enc := bitstr.New(sa, 0, int32(8*n-3))
		share(id+".enc", func() interface{} { return enc })
		add(id+".bitstr", func() string {
			return fmt.Sprint(bitstr.CmpUpto(sbb, enc), bitstr.StrCmpUpto(sb, enc), bitstr.Cmp(enc, bitstr.New(sb, 0, int32(8*n))), bitstr.Len(enc))
		})
		keys := []string{sa[:n/2], sa, sb}
		sort.Strings(keys)
		share(id+".keys", func() interface{} { return keys })
		add(id+".sigbits", func() string {
			a, b := sigbits.ShardByPrefix(keys, 2)
			return showI32s(sigbits.FirstDiffBits(keys)) + showI32s(a) + showI32s(b)
		})
	}

	// strings / keys
	for k := 0; k < nBitmaps; k++ {
		keyBytes := g.sortedKeys(2+g.intn(12), k%4)
		keys := make([]string, len(keyBytes))
		for i, b := range keyBytes {
			keys[i] = string(b)
		}
		id := fmt.Sprintf("keys%d", k)
		share(id, func() interface{} { return keys })
		sb := sigbits.New(keys)
		add(id+".FirstDiffBits", func() string { return scrI32s(sigbits.FirstDiffBits(keys)) })
		add(id+".ShardByPrefix", func() string { a, b := sigbits.ShardByPrefix(keys, 3); return scrI32s(a) + ";" + scrI32s(b) })
		if len(keys) >= 2 {
			add(id+".CountPrefixes", func() string { a, b := sb.CountPrefixes(0, int32(len(keys)), 9); return fmt.Sprint(a) + showI32s(b) })
		}
		add(id+".PathsOf", func() string { return scrU64s(bmtree.PathsOf(keys, 3, 11, true)) })
		for q := 0; q < nQueries/4; q++ {
			s := keys[g.intn(len(keys))]
			s2 := keys[g.intn(len(keys))]
			from := int32(g.intn(8*len(s) + 3))
			wd := int32(g.intn(33))
			add(id+".FromStr32", func() string { a, b := bitmap.FromStr32(s, from, from+wd); return fmt.Sprint(a, b) })
			for _, n := range []int{1, 2, 4, 8} {
				bw := bitword.BitWord[n]
				add(id+".bitword", func() string {
					f := bw.FromStr(s)
					out := showBytes(f) + bw.ToStr(f) + fmt.Sprint(bw.FirstDiff(s, s2, 0, -1))
					if len(s) > 0 {
						out += fmt.Sprint(bw.Get(s, 0))
					}
					return out + fmt.Sprint(bw.FromStrs([]string{s, s2})) + fmt.Sprint(bw.ToStrs([][]byte{f}))
				})
			}
			if len(s) > 0 && len(s2) > 0 {
				to := int32(1 + g.intn(8*len(s)))
				to2 := int32(1 + g.intn(8*len(s2)))
				e1 := bitstr.New(s, 0, to)
				e2 := bitstr.New(s2, 0, to2)
				plain := []byte(s2)
				share(id+fmt.Sprintf(".enc%d", q), func() interface{} { return [][]byte{e1, e2, plain} })
				add(id+".bitstr", func() string {
					return fmt.Sprint(bitstr.Cmp(e1, e2), bitstr.CmpUpto(plain, e1), bitstr.StrCmpUpto(s2, e1), bitstr.Len(e1),
						showBytes(bitstr.New(s, 0, to)))
				})
			}
		}
	}

	// bmtree
	for k := 0; k < nBitmaps; k++ {
		h := 1 + g.intn(10)
		t := g.randMask(h)
		id := fmt.Sprintf("tree%d", k)
		bm := g.words((int(t)+63)/64, false)
		share(id+".bm", func() interface{} { return bm })
		add(id+".Decode", func() string { return scrU64s(bmtree.Decode(t, bm)) })
		add(id+".AllPaths", func() string { return scrU64s(bmtree.AllPaths(t, 0, 1<<63)) })
		lo, hi := mkPath(h, 1, 0), mkPath(h, h, 1<<uint(h)-2)
		add(id+".AllPathsRange", func() string { return scrU64s(bmtree.AllPaths(t, lo, hi)) + scrU64s(bmtree.AllPaths(t, lo+1, 1<<63)) })
		for q := 0; q < nQueries/2; q++ {
			l, pfx := g.randNode(h)
			p := mkPath(h, l, pfx)
			add(id+".PathToIndexLoose", func() string { a, b := bmtree.PathToIndexLoose(t, p); return fmt.Sprint(a, b) })
			if t&(1<<uint(l)) != 0 {
				add(id+".PathToIndex", func() string { return fmt.Sprint(bmtree.PathToIndex(t, p)) })
			}
			hh := int32(g.intn(31))
			idx := int32(g.r.Int63n(int64(1)<<uint(hh+1) - 1))
			add(id+".IndexToPath", func() string { return fmt.Sprint(bmtree.IndexToPath(hh, idx), bmtree.PathStr(p), bmtree.PathLen(p)) })
			add(id+".PathAccessors", func() string {
				return fmt.Sprint(bmtree.PathHeight(p), bmtree.PathBits(p), bmtree.PathMask(p), bmtree.Height(t), bmtree.NewPath(pfx<<uint(h-l), int32(l), int32(h)),
					bmtree.PathOf("\xa5\x5a\xff\x00\x81", int32(l), int32(h)))
			})
		}
	}

	// concurrent runs FIRST (the process's very first use of every function: lazily built state is built under
	// contention), every worker in its own order; the sequential reference is computed afterwards
	got := make([][]string, workers)
	var mismatches int64
	var firstMismatch atomic.Value
	var wg sync.WaitGroup
	start := make(chan struct{})
	for w := 0; w < workers; w++ {
		wg.Add(1)
		perm := rand.New(rand.NewSource(seed*131 + int64(w))).Perm(len(calls))
		got[w] = make([]string, rounds*len(calls))
		go func(w int, perm []int) {
			defer wg.Done()
			<-start
			for round := 0; round < rounds; round++ {
				for _, i := range perm {
					got[w][round*len(calls)+i] = safeCall(calls[i].f)
				}
				runtime.Gosched()
			}
		}(w, perm)
	}
	close(start)
	wg.Wait()

	// sequential reference, after the fact
	want := make([]string, len(calls))
	for i, c := range calls {
		want[i] = safeCall(c.f)
	}
	for w := 0; w < workers; w++ {
		for k, g := range got[w] {
			i := k % len(calls)
			if g != want[i] {
				if atomic.AddInt64(&mismatches, 1) == 1 {
					firstMismatch.Store(fmt.Sprintf("%s: concurrent %q, sequential %q", calls[i].name, g, want[i]))
				}
			}
		}
	}

	modified := []string{}
	for _, s := range snaps {
		if !reflect.DeepEqual(s.get(), s.was) {
			modified = append(modified, s.name)
		}
	}
	names := map[string]int{}
	for _, c := range calls {
		names[c.name[strings.Index(c.name, ".")+1:]]++
	}
	fns := []string{}
	for n := range names {
		fns = append(fns, n)
	}
	sort.Strings(fns)
	fmt.Printf("conc calls=%d workers=%d rounds=%d executions=%d shared_objects=%d mismatches=%d modified=%s functions=%s\n",
		len(calls), workers, rounds, len(calls)*workers*rounds, len(snaps), mismatches, strings.Join(append(modified, "-"), ","), strings.Join(fns, ","))
	if m := firstMismatch.Load(); m != nil {
		fmt.Printf("conc first-mismatch %s\n", m)
	}
	if mismatches > 0 || len(modified) > 0 {
		return 3
	}
	return 0
}

// ---------------------------------------------------------------- C05 exhaustive run on the real code
//
// every (height, index) pair: IndexToPath gives a well-formed path whose PathToIndex on the full tree is index

func exhaustC05(maxh int) int {
	type res struct {
		h     int
		pairs int64
		bad   string
	}
	jobs := make(chan [3]int64, 1024)
	out := make(chan res, 1024)
	var wg sync.WaitGroup
	for w := 0; w < runtime.NumCPU(); w++ {
		wg.Add(1)
		go func() {
			defer wg.Done()
			for j := range jobs {
				h, lo, hi := int32(j[0]), j[1], j[2]
				full := int32(int64(1)<<uint(h+1) - 1)
				r := res{h: int(h)}
				for i := lo; i < hi; i++ {
					p := bmtree.IndexToPath(h, int32(i))
					r.pairs++
					mask := uint32(p)
					bitsv := uint32(p >> 32)
					l := bmtree.PathLen(p)
					ok := p&0x8000000080000000 == 0 && l <= h &&
						(mask == 0 || (mask == (uint32(1)<<uint(l)-1)<<uint(h-l))) && bitsv&^mask == 0
					if ok {
						ok = int64(bmtree.PathToIndex(full, p)) == i
					}
					if !ok && r.bad == "" {
						r.bad = fmt.Sprintf("i2p %d %d", h, i)
					}
				}
				out <- r
			}
		}()
	}
	go func() {
		for h := 0; h <= maxh; h++ {
			n := int64(1)<<uint(h+1) - 1
			step := int64(1 << 22)
			for lo := int64(0); lo < n; lo += step {
				hi := lo + step
				if hi > n {
					hi = n
				}
				jobs <- [3]int64{int64(h), lo, hi}
			}
		}
		close(jobs)
		wg.Wait()
		close(out)
	}()
	var total int64
	bad := []string{}
	for r := range out {
		total += r.pairs
		if r.bad != "" {
			bad = append(bad, r.bad)
		}
	}
	sort.Strings(bad)
	fmt.Printf("exhaust-c05 heights=0..%d pairs=%d failing=%d\n", maxh, total, len(bad))
	for i, b := range bad {
		if i < 5 {
			fmt.Printf("exhaust-c05 failing-case %s\n", b)
		}
	}
	if len(bad) > 0 {
		return 1
	}
	return 0
}

var _ = os.Exit
