package main

// call sequences for the bmtree index functions: a node followed by / preceded by its relatives (parent, children,
// sibling, first node after its subtree, last node of its subtree, pre-order predecessor, ancestors, descendants,
// numeric neighbours of its index).  The functions are pure, so every answer must be the one the single call gives.

import (
	"strconv"
	"strings"
)

type bmNode struct {
	l   int
	pfx uint64
}

func ones(k int) uint64 { return 1<<uint(k) - 1 }

// relatives of n in a tree of height h (duplicates and n itself are harmless)
func (g *G) relatives(h int, n bmNode) []bmNode {
	r := []bmNode{}
	if n.l > 0 {
		r = append(r, bmNode{n.l - 1, n.pfx >> 1}, bmNode{n.l, n.pfx ^ 1})
		if n.pfx&1 == 1 {
			r = append(r, bmNode{h, (n.pfx^1)<<uint(h-n.l) | ones(h-n.l)}) // pre-order predecessor
		}
		a := g.intn(n.l)
		r = append(r, bmNode{a, n.pfx >> uint(n.l-a)}) // an ancestor
	}
	if n.l < h {
		r = append(r, bmNode{n.l + 1, n.pfx << 1}, bmNode{n.l + 1, n.pfx<<1 | 1},
			bmNode{h, n.pfx<<uint(h-n.l) | ones(h-n.l)}, bmNode{h, n.pfx << uint(h-n.l)})
		d := n.l + 1 + g.intn(h-n.l)
		r = append(r, bmNode{d, n.pfx<<uint(d-n.l) | g.r.Uint64()&ones(d-n.l)}) // a descendant
	}
	// the first node after n's subtree
	m := n
	for m.l > 0 && m.pfx&1 == 1 {
		m.pfx >>= 1
		m.l--
	}
	if m.l > 0 {
		after := bmNode{m.l, m.pfx | 1}
		r = append(r, after)
		if after.l < h {
			r = append(r, bmNode{after.l + 1, after.pfx << 1})
		}
	}
	return r
}

// index of n in the full tree of height h, in pre-order
func fullIndex(h int, n bmNode) int64 {
	idx := int64(0)
	for j := 1; j <= n.l; j++ {
		if n.pfx>>uint(n.l-j)&1 == 0 {
			idx++
		} else {
			idx += 1 + (int64(1)<<uint(h-j+1) - 1)
		}
	}
	return idx
}

func (g *G) seqHeight() int {
	switch g.intn(4) {
	case 0:
		return 1 + g.intn(11)
	case 1:
		return 24 + g.intn(7)
	default:
		return 12 + g.intn(19)
	}
}

func init() {
	genExtras["C05"] = append(genExtras["C05"], func(g *G) {
		for rep := 0; rep < g.n(300, 3000); rep++ {
			h := g.seqHeight()
			l, pfx := g.randNode(h)
			n := bmNode{l, pfx}
			total := int64(1)<<uint(h+1) - 1
			i := fullIndex(h, n)
			size := int64(1)<<uint(h-n.l+1) - 1
			rel := []int64{i + size, i + size - 1, i + size + 1, i + 1, i - 1, i + 2, i - 2, i - int64(2+g.intn(62)), i + int64(2+g.intn(62)),
				i - int64(g.intn(64)), i ^ 32, i ^ 64, i &^ 63, i | 63, i - size, i + 2*size}
			for _, m := range g.relatives(h, n) {
				rel = append(rel, fullIndex(h, m))
			}
			seq := []string{}
			for _, j := range rel {
				if j >= 0 && j < total {
					seq = append(seq, strconv.FormatInt(i, 10), strconv.FormatInt(j, 10))
				}
			}
			if len(seq) > 0 {
				g.emit("i2pseq %d %s", h, strings.Join(seq, ","))
			}
		}
		// descending and ascending walks in tall trees, steps of 1..64
		for rep := 0; rep < g.n(30, 300); rep++ {
			h := 16 + g.intn(15)
			total := int64(1)<<uint(h+1) - 1
			i := g.r.Int63n(total)
			seq := []string{}
			for k := 0; k < 40; k++ {
				seq = append(seq, strconv.FormatInt(i, 10))
				step := int64(1 + g.intn(64))
				if rep%2 == 0 {
					step = -step
				}
				if i+step < 0 || i+step >= total {
					break
				}
				i += step
			}
			g.emit("i2pseq %d %s", h, strings.Join(seq, ","))
		}
	})
	genExtras["C03"] = append(genExtras["C03"], func(g *G) {
		for rep := 0; rep < g.n(300, 3000); rep++ {
			h := g.seqHeight()
			t := g.randMask(h)
			l, pfx := g.randNode(h)
			n := bmNode{l, pfx}
			stored := func(m bmNode) bool { return t&(1<<uint(m.l)) != 0 }
			// for the strict function every node must be on a stored level: descend along zeros to the next stored one
			toStored := func(m bmNode) (bmNode, bool) {
				for ; m.l <= h; m = (bmNode{m.l + 1, m.pfx << 1}) {
					if stored(m) {
						return m, true
					}
				}
				return m, false
			}
			loose, strict := []string{}, []string{}
			n2, ok := toStored(n)
			for _, m := range g.relatives(h, n) {
				loose = append(loose, strconv.FormatUint(mkPath(h, n.l, n.pfx), 10), strconv.FormatUint(mkPath(h, m.l, m.pfx), 10))
			}
			if ok {
				for _, m := range g.relatives(h, n2) {
					if m2, ok2 := toStored(m); ok2 {
						strict = append(strict, strconv.FormatUint(mkPath(h, n2.l, n2.pfx), 10), strconv.FormatUint(mkPath(h, m2.l, m2.pfx), 10))
					}
				}
			}
			if len(loose) > 0 {
				g.emit("p2ilseq %d %s", t, strings.Join(loose, ","))
			}
			if len(strict) > 0 {
				g.emit("p2iseq %d %s", t, strings.Join(strict, ","))
			}
		}
	})
}
