package main

// pathstrprobe <h> <n> <seed> <goroutines>: PathStr on n paths of height h, each result compared at once with the
// rendering computed here from the prefix bits, and the results that were KEPT compared again at the end (a string a
// caller holds must not change, however many paths are rendered later).  With goroutines > 1 the same is done from
// several goroutines over a shared pool of paths (the property's functions are pure: a concurrent caller must get the
// same renderings).  Output "ok" or the first discrepancy.

import (
	"fmt"
	"sync"

	"github.com/openacid/low/bmtree"
)

func init() {
	reg("pathstrprobe", func(a []string) string {
		h, n, seed, gor := int32(mustI64(a[0])), int(mustI64(a[1])), mustU64(a[2]), int(mustI64(a[3]))
		if h < 1 || h > 32 || n < 1 || gor < 1 {
			panic("harness: bad pathstrprobe arguments")
		}
		mk := func(k uint64) (uint64, string) {
			r := mix64(seed*7919 + k)
			l := h
			if r%4 == 0 {
				l = int32(r >> 8 % uint64(h+1))
			}
			pfx := mix64(r)
			if l < 64 {
				pfx &= 1<<uint(l) - 1
			}
			want := make([]byte, l)
			for j := int32(0); j < l; j++ {
				want[j] = '0' + byte(pfx>>uint(l-1-j)&1)
			}
			return bmtree.NewPath(pfx<<uint(h-l), l, h), string(want)
		}
		if gor == 1 {
			type kept struct {
				got, want string
				k         int
			}
			var keep []kept
			for k := 0; k < n; k++ {
				p, want := mk(uint64(k))
				got := bmtree.PathStr(p)
				if got != want {
					return fmt.Sprintf("PathStr(%d) = %q, want %q (call %d)", p, got, want, k)
				}
				if k < 256 || k%(n/256+1) == 0 {
					keep = append(keep, kept{got, want, k})
				}
			}
			for _, x := range keep {
				if x.got != x.want {
					return fmt.Sprintf("the string returned by call %d changed afterwards: now %q, was %q", x.k, x.got, x.want)
				}
			}
			return "ok"
		}
		// a pool of paths shared by all goroutines
		const pool = 4096
		ps := make([]uint64, pool)
		ws := make([]string, pool)
		for k := range ps {
			ps[k], ws[k] = mk(uint64(k))
		}
		var mu sync.Mutex
		bad := ""
		var wg sync.WaitGroup
		for g := 0; g < gor; g++ {
			wg.Add(1)
			go func(g int) {
				defer wg.Done()
				defer func() {
					if e := recover(); e != nil {
						mu.Lock()
						if bad == "" {
							bad = fmt.Sprintf("PathStr panics in a concurrent caller: %.80v", e)
						}
						mu.Unlock()
					}
				}()
				for k := 0; k < n/gor; k++ {
					i := int(mix64(seed+uint64(g)<<32+uint64(k)) % pool)
					if got := bmtree.PathStr(ps[i]); got != ws[i] {
						mu.Lock()
						if bad == "" {
							bad = fmt.Sprintf("PathStr(%d) = %q in a concurrent caller, want %q", ps[i], got, ws[i])
						}
						mu.Unlock()
						return
					}
				}
			}(g)
		}
		wg.Wait()
		if bad != "" {
			return bad
		}
		return "ok"
	})
}
