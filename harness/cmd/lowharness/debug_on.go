//go:build debug
// +build debug

package main

const debugBuild = true
