package main

// gcprobe <pkg> <n> <len> <seed>: the string / slice functions called n times on freshly allocated arguments of one
// length, with a garbage collection between the calls, so that new arguments land on the addresses of dead ones (the
// allocator hands freed slots of a size class out again).  A result must depend on the CONTENTS of the arguments only;
// each is compared with a naive reference computed here.  Output "ok <number of address reuses seen>"-free: just "ok"
// or the first discrepancy (the count of reuses is not deterministic and therefore not printed).

import (
	"fmt"
	"runtime"
	"runtime/debug"

	"github.com/openacid/low/bitstr"
	"github.com/openacid/low/bitword"
)

func init() {
	reg("gcprobe", func(a []string) string {
		pkg, n, l, seed := a[0], int(mustI64(a[1])), int(mustI64(a[2])), mustU64(a[3])
		if l < 1 {
			panic("harness: bad gcprobe length")
		}
		fresh := func(k uint64, flipAt int) []byte {
			b := make([]byte, l)
			for i := range b {
				b[i] = byte(mix64(seed + uint64(i/3)))
			}
			if flipAt >= 0 {
				b[flipAt%l] ^= 1 << (k % 8)
			}
			return b
		}
		// the second argument lives through the whole probe, the first one is allocated anew for every call
		y := fresh(0, -1)
		sb := string(y)
		for k := 0; k < n; k++ {
			r := mix64(seed*31 + uint64(k))
			fa := int(r % uint64(l))
			if r>>20%5 == 0 {
				fa = -1
			}
			x := fresh(r>>8, fa)
			switch pkg {
			case "bitword":
				for _, w := range []int{1, 2, 4, 8} {
					sa := string(x)
					want := 8 * l / w
					for i := 0; i < 8*l/w; i++ {
						bit := i * w
						va := x[bit/8] >> uint(8-w-bit%8) & (1<<uint(w) - 1)
						vb := y[bit/8] >> uint(8-w-bit%8) & (1<<uint(w) - 1)
						if va != vb {
							want = i
							break
						}
					}
					if got := bitword.BitWord[w].FirstDiff(sa, sb, 0, -1); got != want {
						return fmt.Sprintf("call %d: BitWord[%d].FirstDiff(%.40x.., %.40x.., 0, -1) = %d, want %d", k, w, x, y, got, want)
					}
				}
			case "bitstr":
				ea, eb := bitstr.New(string(x), 0, int32(8*l)), bitstr.New(string(y), 0, int32(8*l))
				want := 0
				if c := string(x) < string(y); c {
					want = -1
				} else if string(x) > string(y) {
					want = 1
				}
				if got := bitstr.Cmp(ea, eb); got != want {
					return fmt.Sprintf("call %d: Cmp(New(%.40x..), New(%.40x..)) = %d, want %d", k, x, y, got, want)
				}
				if got := bitstr.CmpUpto(x, eb); got != want {
					return fmt.Sprintf("call %d: CmpUpto(%.40x.., New(%.40x..)) = %d, want %d", k, x, y, got, want)
				}
				if got := bitstr.StrCmpUpto(string(x), eb); got != want {
					return fmt.Sprintf("call %d: StrCmpUpto(%.40x.., New(%.40x..)) = %d, want %d", k, x, y, got, want)
				}
			default:
				panic("harness: bad gcprobe package")
			}
			x = nil
			runtime.GC()
		}
		return "ok"
	})
}

// cmpuptoprobe <len(a)> <seed>: CmpUpto with plain bytes far longer than anything the driver can hold (the bytes
// beyond Len(b) bits do not matter, however many there are); expected sign computed here bit by bit.
func init() {
	reg("cmpuptoprobe", func(a []string) string {
		la, seed := int(mustI64(a[0])), mustU64(a[1])
		if la >= 1<<26 {
			debug.FreeOSMemory()
		}
		big := make([]byte, la)
		for k := uint64(0); k < 24; k++ {
			for i := 0; i < 16 && i < la; i++ {
				big[i] = 0
			}
			big[la-1] = 0
			r := mix64(seed*77 + k)
			ls := 1 + int(r%12)
			if ls > la {
				ls = la
			}
			s := make([]byte, ls)
			for i := range s {
				s[i] = byte(mix64(r + uint64(i)))
			}
			to := 8*ls - int(r>>16%8)
			if to < 0 {
				to = 0
			}
			b := bitstr.New(string(s), 0, int32(to))
			copy(big, s)
			switch r >> 24 % 4 {
			case 0: // differ inside the compared bits
				if to > 0 {
					bit := int(r >> 32 % uint64(to))
					big[bit/8] ^= 0x80 >> uint(bit%8)
				}
			case 1: // differ just beyond the compared bits
				if to < 8*la {
					big[to/8] ^= 0x80 >> uint(to%8)
				}
			case 2:
				big[la-1] = 0xff
			}
			want := 0
			for bit := 0; bit < to; bit++ {
				x, y := big[bit/8]>>uint(7-bit%8)&1, s[bit/8]>>uint(7-bit%8)&1
				if x != y {
					want = 1
					if x < y {
						want = -1
					}
					break
				}
			}
			if got := bitstr.CmpUpto(big, b); got != want {
				return fmt.Sprintf("CmpUpto(a, New(%x,0,%d)) = %d, want %d, with len(a)=%d, a[:12]=%x", s, to, got, want, la, big[:min(12, la)])
			}
		}
		return "ok"
	})
}
