package main

// gcprobe <pkg> <n> <len> <seed>: the string / slice functions called n times on freshly allocated arguments of one
// length, with a garbage collection between the calls, so that new arguments land on the addresses of dead ones (the
// allocator hands freed slots of a size class out again).  A result must depend on the CONTENTS of the arguments only;
// each is compared with a naive reference computed here.  Output "ok <number of address reuses seen>"-free: just "ok"
// or the first discrepancy (the count of reuses is not deterministic and therefore not printed).

import (
	"fmt"
	"runtime"

	"github.com/openacid/low/bitstr"
	"github.com/openacid/low/bitword"
)

func init() {
	reg("gcprobe", func(a []string) string {
		pkg, n, l, seed := a[0], int(mustI64(a[1])), int(mustI64(a[2])), mustU64(a[3])
		if l < 1 {
			panic("harness: bad gcprobe length")
		}
		fresh := func(k uint64, flipAt int) []byte {
			b := make([]byte, l)
			for i := range b {
				b[i] = byte(mix64(seed + uint64(i/3)))
			}
			if flipAt >= 0 {
				b[flipAt%l] ^= 1 << (k % 8)
			}
			return b
		}
		for k := 0; k < n; k++ {
			r := mix64(seed*31 + uint64(k))
			fa, fb := -1, int(r%uint64(l))
			if r>>20%5 == 0 {
				fb = -1
			}
			x, y := fresh(uint64(k), fa), fresh(r>>8, fb)
			switch pkg {
			case "bitword":
				for _, w := range []int{1, 2, 4, 8} {
					sa, sb := string(x), string(y)
					want := 8 * l / w
					for i := 0; i < 8*l/w; i++ {
						bit := i * w
						va := x[bit/8] >> uint(8-w-bit%8) & (1<<uint(w) - 1)
						vb := y[bit/8] >> uint(8-w-bit%8) & (1<<uint(w) - 1)
						if va != vb {
							want = i
							break
						}
					}
					if got := bitword.BitWord[w].FirstDiff(sa, sb, 0, -1); got != want {
						return fmt.Sprintf("call %d: BitWord[%d].FirstDiff(%x, %x, 0, -1) = %d, want %d", k, w, x, y, got, want)
					}
				}
			case "bitstr":
				ea, eb := bitstr.New(string(x), 0, int32(8*l)), bitstr.New(string(y), 0, int32(8*l))
				want := 0
				if c := string(x) < string(y); c {
					want = -1
				} else if string(x) > string(y) {
					want = 1
				}
				if got := bitstr.Cmp(ea, eb); got != want {
					return fmt.Sprintf("call %d: Cmp(New(%x), New(%x)) = %d, want %d", k, x, y, got, want)
				}
				if got := bitstr.CmpUpto(x, eb); got != want {
					return fmt.Sprintf("call %d: CmpUpto(%x, New(%x)) = %d, want %d", k, x, y, got, want)
				}
				if got := bitstr.StrCmpUpto(string(x), eb); got != want {
					return fmt.Sprintf("call %d: StrCmpUpto(%x, New(%x)) = %d, want %d", k, x, y, got, want)
				}
			default:
				panic("harness: bad gcprobe package")
			}
			x, y = nil, nil
			if k%2 == 0 {
				runtime.GC()
			}
		}
		return "ok"
	})
}
