package main

import (
	"fmt"
	"math"
	"math/rand"
	"reflect"
	"strings"
	"unsafe"

	"github.com/openacid/low/size"
)

// describe renders the value tree (kinds and lengths only) in the driver's syntax.
// It is an independent walk: scalar widths come from a fixed table, not from Type.Size.
var scalarWidth = map[reflect.Kind]int{
	reflect.Bool: 1, reflect.Int8: 1, reflect.Int16: 2, reflect.Int32: 4, reflect.Int64: 8, reflect.Int: 8,
	reflect.Uint8: 1, reflect.Uint16: 2, reflect.Uint32: 4, reflect.Uint64: 8, reflect.Uint: 8, reflect.Uintptr: 8,
	reflect.Float32: 4, reflect.Float64: 8, reflect.Complex64: 8, reflect.Complex128: 16,
}

var kindLetter = map[reflect.Kind]string{
	reflect.Bool: "b", reflect.Int8: "a", reflect.Int16: "c", reflect.Int32: "d", reflect.Int64: "e", reflect.Int: "i",
	reflect.Uint8: "g", reflect.Uint16: "h", reflect.Uint32: "j", reflect.Uint64: "k", reflect.Uint: "u", reflect.Uintptr: "p",
	reflect.Float32: "f", reflect.Float64: "m", reflect.Complex64: "x", reflect.Complex128: "y",
}

func describe(v reflect.Value) string {
	if w, ok := scalarWidth[v.Kind()]; ok {
		return fmt.Sprintf("S%d%s", w, kindLetter[v.Kind()])
	}
	list := func(tag string, n int, at func(int) reflect.Value) string {
		ss := make([]string, n)
		for i := 0; i < n; i++ {
			ss[i] = describe(at(i))
		}
		return tag + "[" + strings.Join(ss, ",") + "]"
	}
	switch v.Kind() {
	case reflect.String:
		return fmt.Sprintf("T%d", v.Len())
	case reflect.Array:
		return list("A", v.Len(), v.Index)
	case reflect.Slice:
		return list("L", v.Len(), v.Index)
	case reflect.Struct:
		return list("R", v.NumField(), v.Field)
	case reflect.Map:
		// the entries themselves (MapRange), not a lookup per key: an entry whose key is not equal to itself
		// (a NaN inside the key) is an entry all the same, and a lookup would not find it
		var ss []string
		for it := v.MapRange(); it.Next(); {
			ss = append(ss, describe(it.Key())+":"+describe(it.Value()))
		}
		return "M[" + strings.Join(ss, ",") + "]"
	case reflect.Ptr:
		if v.IsNil() {
			return "P0"
		}
		return "P[" + describe(v.Elem()) + "]"
	case reflect.Interface:
		if v.IsNil() {
			return "I0"
		}
		return "I[" + describe(v.Elem()) + "]"
	}
	return "U"
}

var ifaceType = reflect.TypeOf((*interface{})(nil)).Elem()

var scalarTypes = []reflect.Type{
	reflect.TypeOf(false), reflect.TypeOf(int8(0)), reflect.TypeOf(int16(0)), reflect.TypeOf(int32(0)),
	reflect.TypeOf(int64(0)), reflect.TypeOf(int(0)), reflect.TypeOf(uint8(0)), reflect.TypeOf(uint16(0)),
	reflect.TypeOf(uint32(0)), reflect.TypeOf(uint64(0)), reflect.TypeOf(uint(0)), reflect.TypeOf(uintptr(0)),
	reflect.TypeOf(float32(0)), reflect.TypeOf(float64(0)), reflect.TypeOf(complex64(0)), reflect.TypeOf(complex128(0)),
}

func randType(r *rand.Rand, depth int) reflect.Type {
	if depth <= 0 || r.Intn(4) == 0 {
		if r.Intn(5) == 0 {
			return reflect.TypeOf("")
		}
		return scalarTypes[r.Intn(len(scalarTypes))]
	}
	switch r.Intn(7) {
	case 0:
		return reflect.SliceOf(randType(r, depth-1))
	case 1:
		return reflect.ArrayOf(r.Intn(4), randType(r, depth-1))
	case 2:
		keys := []reflect.Type{reflect.TypeOf(""), reflect.TypeOf(int(0)), reflect.TypeOf(uint8(0)), reflect.TypeOf(uint(0)), reflect.TypeOf(int32(0)),
			reflect.TypeOf(float64(0)), reflect.TypeOf(float32(0)), reflect.TypeOf(complex128(0)), ifaceType, reflect.TypeOf(false),
			reflect.TypeOf([2]float64{}), reflect.TypeOf(keyRec{}), reflect.TypeOf(""), reflect.TypeOf(int64(0))}
		return reflect.MapOf(keys[r.Intn(len(keys))], randType(r, depth-1))
	case 3:
		return reflect.PtrTo(randType(r, depth-1))
	case 4:
		return ifaceType
	default:
		n := r.Intn(5)
		fs := make([]reflect.StructField, n)
		for i := range fs {
			fs[i] = reflect.StructField{Name: fmt.Sprintf("F%d", i), Type: randType(r, depth-1)}
		}
		if n > 0 && r.Intn(4) == 0 {
			// an embedded struct as first field (a type without methods, which reflect.StructOf accepts)
			fs[0] = reflect.StructField{Name: "EmbHeaderLike", Anonymous: true, Type: reflect.TypeOf(embPlain{})}
		}
		return reflect.StructOf(fs)
	}
}

// pointers already handed out during one fill, by type: reused now and then, so that acyclic values with
// the same pointee reachable along two paths occur (the structural sum counts the pointee on every path)
var ptrPool = map[reflect.Type][]reflect.Value{}

func fill(r *rand.Rand, v reflect.Value, depth int) {
	switch v.Kind() {
	case reflect.Bool:
		v.SetBool(r.Intn(2) == 0)
	case reflect.Int8, reflect.Int16, reflect.Int32, reflect.Int64, reflect.Int:
		v.SetInt(int64(r.Intn(100)))
	case reflect.Uint8, reflect.Uint16, reflect.Uint32, reflect.Uint64, reflect.Uint, reflect.Uintptr:
		v.SetUint(uint64(r.Intn(100)))
	case reflect.Float32, reflect.Float64:
		v.SetFloat(r.Float64())
	case reflect.Complex64, reflect.Complex128:
		v.SetComplex(complex(r.Float64(), 1))
	case reflect.String:
		v.SetString(strings.Repeat("s", r.Intn(6)))
	case reflect.Array:
		for i := 0; i < v.Len(); i++ {
			fill(r, v.Index(i), depth-1)
		}
	case reflect.Slice:
		if r.Intn(5) == 0 {
			return // nil slice
		}
		n := r.Intn(4)
		s := reflect.MakeSlice(v.Type(), n, n+r.Intn(3))
		for i := 0; i < n; i++ {
			fill(r, s.Index(i), depth-1)
		}
		v.Set(s)
	case reflect.Map:
		if r.Intn(5) == 0 {
			return // nil map
		}
		m := reflect.MakeMap(v.Type())
		for i := 0; i < r.Intn(4); i++ {
			k := reflect.New(v.Type().Key()).Elem()
			fill(r, k, 0)
			nan := r.Intn(3) == 0 // a key that is not equal to itself: every insertion makes a new entry
			fl := float64(i) + 0.5
			if nan {
				fl = math.NaN()
			}
			switch {
			case k.Kind() == reflect.String:
				k.SetString(strings.Repeat("k", i))
			case k.Kind() >= reflect.Int && k.Kind() <= reflect.Int64:
				k.SetInt(int64(i))
			case k.Kind() >= reflect.Uint && k.Kind() <= reflect.Uintptr:
				k.SetUint(uint64(i))
			case k.Kind() == reflect.Bool:
				k.SetBool(i%2 == 0)
			case k.Kind() == reflect.Float32 || k.Kind() == reflect.Float64:
				k.SetFloat(fl)
			case k.Kind() == reflect.Complex128:
				k.SetComplex(complex(1, fl))
			case k.Kind() == reflect.Array: // [2]float64
				k.Index(0).SetFloat(float64(i))
				k.Index(1).SetFloat(fl)
			case k.Kind() == reflect.Struct: // keyRec
				k.Field(0).SetInt(int64(i))
				k.Field(1).SetFloat(fl)
				k.Field(2).SetString(strings.Repeat("q", i))
			case k.Kind() == reflect.Interface: // comparable dynamic values of several sizes
				dyn := []interface{}{int8(i), "key" + strings.Repeat("k", i), fl, [2]float64{1, fl}, keyRec{int32(i), fl, "s"}, complex(float32(fl), 0), uint16(i)}
				k.Set(reflect.ValueOf(dyn[r.Intn(len(dyn))]))
			}
			e := reflect.New(v.Type().Elem()).Elem()
			fill(r, e, depth-1)
			m.SetMapIndex(k, e)
		}
		v.Set(m)
	case reflect.Ptr:
		if r.Intn(4) == 0 {
			return // nil pointer
		}
		if old := ptrPool[v.Type()]; len(old) > 0 && r.Intn(3) == 0 {
			v.Set(old[r.Intn(len(old))]) // alias an earlier pointer
			return
		}
		p := reflect.New(v.Type().Elem())
		fill(r, p.Elem(), depth-1)
		ptrPool[v.Type()] = append(ptrPool[v.Type()], p)
		v.Set(p)
	case reflect.Interface:
		if r.Intn(4) == 0 {
			return // nil interface
		}
		t := randType(r, depth-1)
		for t.Kind() == reflect.Interface {
			t = randType(r, depth-1)
		}
		e := reflect.New(t).Elem()
		fill(r, e, depth-1)
		v.Set(e)
	case reflect.Struct:
		for i := 0; i < v.NumField(); i++ {
			fill(r, v.Field(i), depth-1)
		}
	}
}

type bigRec struct {
	S string
	P *int32
	A [2]string
}

func bigRecs(n int) []bigRec {
	r := make([]bigRec, n)
	for i := range r {
		r[i].S = strings.Repeat("s", i%7)
		if i%3 == 1 {
			r[i].P = new(int32)
		}
		r[i].A[i%2] = strings.Repeat("a", i%5)
	}
	return r
}

var sharedPtr = new(int64)

type embPlain struct {
	ID   int32
	Name string
	P    *int16
}

// embedded (anonymous) struct fields: one field each, whose own fields are promoted
type embHeader struct {
	ID   int32
	Name string
}

type embRecord struct {
	embHeader
	Vals []int32
}

type embDeep struct {
	embRecord
	*embHeader
	Extra [2]embHeader
}

// two pointers with the same address and different pointee types
type addrOuter struct {
	First int64
	Rest  [3]string
}

var addrVal = addrOuter{1, [3]string{"a", "bcd", ""}}
var addrArr = [4]int32{1, 2, 3, 4}

type namedU struct {
	A uint
	B uintptr
	C []uint
}

// two distinct types that print the same ("main.T"): declared in two function scopes
func sameNameA() interface{} {
	type T struct{ A int32 }
	return []interface{}{T{1}, []T{{1}, {2}}, [3]T{}, &T{5}}
}

func sameNameB() interface{} {
	type T struct {
		A, B, C int64
		D       [4]int16
	}
	return []interface{}{T{}, []T{{}, {}}, [3]T{}, &T{}}
}

// an acyclic singly linked list of n nodes (nesting depth 2n for a walker that follows pointers)
type listNode struct {
	Next *listNode
	V    int64
}

func linkedList(n int) *listNode {
	var head *listNode
	for i := 0; i < n; i++ {
		head = &listNode{head, int64(i)}
	}
	return head
}

// a comparable struct usable as a map key; with F = NaN it is not equal to itself
type keyRec struct {
	A int32
	F float64
	S string
}

var namedValues = map[string]interface{}{
	"float-key-map":   map[float64]int64{1.5: 7, 2.5: 8},
	"nan-key-f64":     map[float64]int64{math.NaN(): 7},
	"nan-key-f32-str": map[float32]string{float32(math.NaN()): "abcdefgh", 1: "x"},
	"nan-keys-many": func() interface{} {
		m := map[float64][]int32{}
		for i := 0; i < 5; i++ {
			m[math.NaN()] = []int32{1, 2, 3}
		}
		m[0] = nil
		return m
	}(),
	"nan-key-iface":    map[interface{}]string{math.NaN(): "abcdefgh", "k": "v", int8(1): ""},
	"nan-key-struct":   map[keyRec]*int64{{1, math.NaN(), "ab"}: sharedPtr, {1, 1, "ab"}: nil},
	"nan-key-array":    map[[2]float64]int16{{0, math.NaN()}: 1, {0, 0}: 2},
	"nan-key-complex":  map[complex128]interface{}{complex(math.NaN(), 0): int32(5), 1i: nil},
	"nan-key-nested":   []interface{}{map[float64]map[float64]string{math.NaN(): {math.NaN(): "deep"}}, struct{ M map[float32]bool }{map[float32]bool{float32(math.NaN()): true}}},
	"same-name-a":      sameNameA(),
	"same-name-b":      sameNameB(),
	"linked-list-100":  linkedList(100),
	"linked-list-6000": linkedList(6000),
	"nil":              nil,
	"uint":             uint(1),
	"uintptr":          uintptr(1),
	"struct-uint":      struct{ A uint }{1},
	"named-u":          namedU{1, 2, []uint{3, 4}},
	"int":              int(3),
	"bool":             true,
	"string":           "hello",
	"empty-str":        "",
	"nil-slice":        []int32(nil),
	"empty-slice":      []int32{},
	"slice3":           []int32{1, 2, 3},
	"array3":           [3]int16{1, 2, 3},
	"nil-ptr":          (*int64)(nil),
	"ptr":              new(int64),
	"nil-map":          map[string]int(nil),
	"map":              map[string]int8{"a": 1, "bcd": 2},
	"iface-field":      struct{ X, Y interface{} }{nil, int8(3)},
	"nested": []struct {
		P *int32
		S string
	}{{nil, "ab"}, {new(int32), ""}},
	"complex":          complex128(1),
	"big-structs-4095": bigRecs(4095),
	"big-structs-4096": bigRecs(4096),
	"big-structs-9000": bigRecs(9000),
	"big-array": func() interface{} {
		var a [4100]bigRec
		copy(a[:], bigRecs(4100))
		return a
	}(),
	"big-strings": func() interface{} {
		r := make([]string, 5000)
		for i := range r {
			r[i] = strings.Repeat("x", i%11)
		}
		return r
	}(),
	"big-bytes":      make([]byte, 70000),
	"embedded":       embRecord{embHeader{7, "abc"}, []int32{1, 2}},
	"embedded-deep":  embDeep{embRecord{embHeader{1, "x"}, nil}, &embHeader{2, "yz"}, [2]embHeader{{3, "q"}, {4, ""}}},
	"embedded-slice": []embRecord{{embHeader{1, "a"}, nil}, {embHeader{2, "bb"}, []int32{5}}},
	"same-address-1": struct {
		A *addrOuter
		B *int64
	}{&addrVal, &addrVal.First},
	"same-address-2": struct {
		B *int64
		A *addrOuter
	}{&addrVal.First, &addrVal},
	"same-address-3": []interface{}{&addrArr, &addrArr[0], &addrArr},
	"alias-slice":    []*int64{sharedPtr, sharedPtr, nil, sharedPtr},
	"alias-fields": struct {
		A, B *int64
		C    interface{}
	}{sharedPtr, sharedPtr, sharedPtr},
	"alias-map":  map[string]*int64{"a": sharedPtr, "b": sharedPtr},
	"unsafe-ptr": unsafe.Pointer(nil),
	"chan":       make(chan int),
}

func sizeOut(v interface{}) string {
	tree := "N"
	if v != nil {
		tree = describe(reflect.ValueOf(v))
	}
	of := size.Of(v)
	first := strings.SplitN(size.Stat(v, 3, 2), "\n", 2)[0]
	stat := "nil"
	if first != "<nil>" {
		stat = strings.TrimSpace(first[strings.LastIndex(first, ":")+1:])
	}
	return fmt.Sprintf("%s|%d,%s", tree, of, stat)
}

func init() {
	// sizeofgen seed depth: a random type and value built with reflect
	reg("sizeofgen", func(a []string) string {
		r := rand.New(rand.NewSource(mustI64(a[0])))
		depth := int(mustI64(a[1]))
		t := randType(r, depth)
		for t.Kind() == reflect.Interface {
			t = randType(r, depth)
		}
		v := reflect.New(t).Elem()
		ptrPool = map[reflect.Type][]reflect.Value{}
		fill(r, v, depth)
		tree := describe(v)
		res := "PANIC"
		func() {
			defer func() { recover() }()
			res = sizeOut(v.Interface())
		}()
		if res == "PANIC" {
			return tree + "|PANIC"
		}
		return res
	})
	reg("sizeofnamed", func(a []string) string {
		v, ok := namedValues[a[0]]
		if !ok {
			panic("harness: no such named value " + a[0])
		}
		tree := "N"
		if v != nil {
			tree = describe(reflect.ValueOf(v))
		}
		res := "PANIC"
		func() {
			defer func() { recover() }()
			res = sizeOut(v)
		}()
		if res == "PANIC" {
			return tree + "|PANIC"
		}
		return res
	})
}
