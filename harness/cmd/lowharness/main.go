// lowharness: runs the real openacid/low code on case lines.
//
//	lowharness gen <ID> <quick|thorough> <seed>   print case lines (no outputs)
//	lowharness run                                read case lines on stdin, print "<line> => <output>"
//	lowharness conc <quick|thorough> <seed>       C19 runtime layer (build with -race)
//	lowharness exhaust-c05 <maxh>                 C05: every (height, index) pair on the real code
package main

import (
	"bufio"
	"fmt"
	"math/rand"
	"os"
	"strconv"
	"strings"
)

var ops = map[string]func([]string) string{}

func reg(name string, f func([]string) string) { ops[name] = f }

// rename ops in the debug build so that the driver selects the debug model
var debugRename = map[string]string{"p2i": "p2id", "p2il": "p2ild", "p2iseq": "p2iseqd", "p2ilseq": "p2ilseqd"}

func runLine(line string) (string, string) {
	toks := strings.Split(line, " ")
	f, ok := ops[toks[0]]
	if !ok {
		return line, "NOSUCHOP"
	}
	out := "PANIC"
	func() {
		defer func() {
			if r := recover(); r != nil {
				if s, ok := r.(string); ok && strings.HasPrefix(s, "harness:") {
					out = "HARNESS-ERROR:" + s
				}
			}
		}()
		out = f(toks[1:])
	}()
	if debugBuild {
		if n, ok := debugRename[toks[0]]; ok {
			line = n + line[len(toks[0]):]
		}
	}
	return line, out
}

func main() {
	if len(os.Args) < 2 {
		fmt.Fprintln(os.Stderr, "usage: lowharness gen|run|conc|exhaust-c05 ...")
		os.Exit(2)
	}
	w := bufio.NewWriterSize(os.Stdout, 1<<20)
	defer w.Flush()
	switch os.Args[1] {
	case "gen":
		id, tier := os.Args[2], os.Args[3]
		seed, _ := strconv.ParseInt(os.Args[4], 10, 64)
		g := &G{r: rand.New(rand.NewSource(seed*1000003 + int64(len(id))*7919 + int64(id[1])*31 + int64(id[2]))), tier: tier,
			out: func(s string) { w.WriteString(s); w.WriteByte('\n') }}
		gen, ok := gens[id]
		if !ok {
			fmt.Fprintln(os.Stderr, "no generator for", id)
			os.Exit(2)
		}
		gen(g)
		for _, f := range genExtras[id] {
			f(g)
		}
	case "run":
		sc := bufio.NewScanner(os.Stdin)
		sc.Buffer(make([]byte, 1<<20), 1<<28)
		flushEach := os.Getenv("LOWHARNESS_FLUSH") == "1"
		for sc.Scan() {
			line := strings.TrimRight(sc.Text(), "\r\n")
			if line == "" || strings.HasPrefix(line, "#") {
				continue
			}
			if flushEach {
				// announce the case before running it, so that a crash names its input
				w.WriteString("#begin " + line + "\n")
				w.Flush()
			}
			l, out := runLine(line)
			w.WriteString(l)
			w.WriteString(" => ")
			w.WriteString(out)
			w.WriteByte('\n')
			if flushEach {
				w.Flush()
			}
		}
	case "conc":
		seed, _ := strconv.ParseInt(os.Args[3], 10, 64)
		w.Flush()
		os.Exit(runConc(os.Args[2], seed))
	case "exhaust-c05":
		maxh, _ := strconv.Atoi(os.Args[2])
		w.Flush()
		os.Exit(exhaustC05(maxh))
	default:
		fmt.Fprintln(os.Stderr, "unknown mode", os.Args[1])
		os.Exit(2)
	}
}

var gens = map[string]func(*G){}

// further generators of a property, run after gens[id] (large-scale probes)
var genExtras = map[string][]func(*G){}
