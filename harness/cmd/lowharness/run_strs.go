package main

import (
	"fmt"
	"math/bits"
	"sort"
	"strconv"
	"strings"

	"github.com/openacid/low/bitstr"
	"github.com/openacid/low/bitword"
	"github.com/openacid/low/sigbits"
)

func showWordsDot(b []byte) string {
	if len(b) == 0 {
		return "e"
	}
	ss := make([]string, len(b))
	for i, v := range b {
		ss[i] = strconv.Itoa(int(v))
	}
	return strings.Join(ss, ".")
}

func bytesToU64s(b []byte) []uint64 {
	r := make([]uint64, len(b))
	for i, v := range b {
		r[i] = uint64(v)
	}
	return r
}

// Several call shapes: StrCmpUpto is inlined into its caller, and what lies next to its string header
// depends on the caller's frame layout.

//go:noinline
func strCmpUptoCallA(a string, b []byte) (r string) {
	defer func() {
		if x := recover(); x != nil {
			r = "PANIC"
		}
	}()
	return strconv.Itoa(bitstr.StrCmpUpto(a, b))
}

//go:noinline
func strCmpUptoCallB(s string, e []byte) (r string) {
	defer func() {
		if x := recover(); x != nil {
			r = fmt.Sprint("PANIC: ", x)
		}
	}()
	return fmt.Sprint(bitstr.StrCmpUpto(s, e))
}

//go:noinline
func strCmpUptoCallC(a string, b []byte) (r string) {
	defer func() {
		if x := recover(); x != nil {
			r = "PANIC"
		}
	}()
	var pad [4]uint64
	pad[len(a)&3] = uint64(len(b))
	v := bitstr.StrCmpUpto(a, b)
	if pad[len(a)&3] != uint64(len(b)) {
		return "?"
	}
	return strconv.Itoa(v)
}

var strCmpUptoFn = bitstr.StrCmpUpto

//go:noinline
func strCmpUptoCallD(a string, b []byte) (r string) {
	defer func() {
		if x := recover(); x != nil {
			r = "PANIC"
		}
	}()
	return strconv.Itoa(strCmpUptoFn(a, b)) // not inlined
}

// strCmpUptoCall runs every call shape; with poisonStack the stack region the callee is about to use is
// filled with a known pattern immediately before each call
func strCmpUptoCall(a string, b []byte, poisonStack bool, pat uint64) string {
	r := ""
	for i, f := range []func(string, []byte) string{strCmpUptoCallA, strCmpUptoCallB, strCmpUptoCallC, strCmpUptoCallD} {
		if poisonStack {
			poisonSink += poison(pat)
		}
		x := f(a, b)
		if strings.HasPrefix(x, "PANIC") {
			x = "PANIC"
		}
		if i == 0 {
			r = x
		} else if x != r {
			return r + "|" + x
		}
	}
	return r
}

var poisonSink uint64

// poison fills the stack region that the next call will use with a known pattern
//
//go:noinline
func poison(p uint64) uint64 {
	var a [2048]uint64
	for i := range a {
		a[i] = p
	}
	s := uint64(0)
	for i := range a {
		s += a[i]
	}
	return s
}

// strCmpUptoOn runs StrCmpUpto with different bytes lying next to its arguments on the stack:
// a pure function of (a, b) must not notice
func strCmpUptoOn(fresh bool, a string, b []byte) string {
	if !fresh {
		return strCmpUptoCall(a, b, false, 0)
	}
	r := ""
	for i, p := range []uint64{0, 3, ^uint64(0)} {
		x := strCmpUptoCall(a, b, true, p)
		if i == 0 {
			r = x
		} else if x != r {
			return r + "|" + x
		}
	}
	ch := make(chan string)
	go func() { ch <- strCmpUptoCall(a, b, false, 0) }()
	if x := <-ch; x != r {
		return r + "|" + x
	}
	return r
}

func init() {
	// ---- bitstr ----
	reg("bsnew", func(a []string) string {
		e := bitstr.New(string(parseBytes(a[0])), mustI32(a[1]), mustI32(a[2]))
		return fmt.Sprintf("%s,%d", outBytes(e), bitstr.Len(e))
	})
	reg("bscmp", func(a []string) string {
		x := bitstr.New(string(parseBytes(a[0])), mustI32(a[1]), mustI32(a[2]))
		y := bitstr.New(string(parseBytes(a[3])), mustI32(a[4]), mustI32(a[5]))
		return strconv.Itoa(bitstr.Cmp(x, y))
	})
	reg("bscmpupto", func(a []string) string {
		pa := parseBytes(a[0])
		b := bitstr.New(string(parseBytes(a[1])), mustI32(a[2]), mustI32(a[3]))
		bcopy := append([]byte(nil), b...)
		acopy := append([]byte(nil), pa...)
		r1 := bitstr.CmpUpto(pa, b)
		// StrCmpUpto reinterprets the string header through unsafe: run it on this goroutine and on a
		// fresh one (a fresh stack holds different bytes next to the header)
		r2 := strCmpUptoOn(false, string(pa), b)
		r3 := strCmpUptoOn(true, string(pa), b)
		// the two arguments may share memory (a caller comparing a bit string with a prefix of its own bytes): the
		// answer is a function of the contents only
		alias := ""
		if len(pa) > 0 && len(pa) <= len(b) && string(b[:len(pa)]) == string(pa) {
			if x := bitstr.CmpUpto(b[:len(pa)], b); x != r1 {
				alias = fmt.Sprintf("(a-is-a-view-of-b:%d)", x)
			}
		}
		if len(b) > 0 && len(b) <= len(pa) && string(pa[:len(b)]) == string(b) {
			if x := bitstr.CmpUpto(pa, pa[:len(b):len(b)]); x != r1 {
				alias = fmt.Sprintf("(b-is-a-view-of-a:%d)", x)
			}
		}
		if string(b) != string(bcopy) || string(pa) != string(acopy) {
			return "INPUT-MODIFIED"
		}
		if alias != "" {
			return fmt.Sprintf("%d%s,%s", r1, alias, r2)
		}
		if r3 != r2 {
			return fmt.Sprintf("%d,%s(other-stack-contents:%s)", r1, r2, r3)
		}
		return fmt.Sprintf("%d,%s", r1, r2)
	})

	// ---- bitword ----
	reg("bwfromstr", func(a []string) string {
		bw := bitword.BitWord[int(mustI64(a[0]))]
		return showU64s(bytesToU64s(bw.FromStr(string(parseBytes(a[1])))))
	})
	reg("bwtostr", func(a []string) string {
		bw := bitword.BitWord[int(mustI64(a[0]))]
		ws := parseU64s(a[1])
		b := make([]byte, len(ws))
		for i, w := range ws {
			b[i] = byte(w)
		}
		return outBytes([]byte(bw.ToStr(b)))
	})
	reg("bwrt", func(a []string) string {
		bw := bitword.BitWord[int(mustI64(a[0]))]
		return outBytes([]byte(bw.ToStr(bw.FromStr(string(parseBytes(a[1]))))))
	})
	reg("bwget", func(a []string) string {
		bw := bitword.BitWord[int(mustI64(a[0]))]
		return strconv.Itoa(int(bw.Get(string(parseBytes(a[1])), int(mustI64(a[2])))))
	})
	reg("bwfirstdiff", func(a []string) string {
		bw := bitword.BitWord[int(mustI64(a[0]))]
		return strconv.Itoa(bw.FirstDiff(string(parseBytes(a[1])), string(parseBytes(a[2])),
			int(mustI64(a[3])), int(mustI64(a[4]))))
	})
	reg("bwstrs", func(a []string) string {
		bw := bitword.BitWord[int(mustI64(a[0]))]
		strs := parseStrList(a[1])
		f := bw.FromStrs(strs)
		back := bw.ToStrs(f)
		p1 := make([]string, len(f))
		for i, w := range f {
			p1[i] = showWordsDot(w)
		}
		// the elements belong to the caller: appending to one (as a caller adding a terminator would) must not
		// change another, and a second conversion must not change the first one's result
		for i := range f {
			_ = append(f[i], 0xaa, 0xbb, 0xcc)
		}
		_ = bw.FromStrs([]string{"\xff\xff\xff\xff\xff\xff\xff\xff", "\xff\xff"})
		for i, w := range f {
			if showWordsDot(w) != p1[i] {
				return fmt.Sprintf("RESULT-CHANGED: element %d of the FromStrs result after appending to the other elements", i)
			}
		}

		p2 := make([]string, len(back))
		for i, s := range back {
			p2[i] = outBytes([]byte(s))
		}
		j := func(l []string) string {
			if len(l) == 0 {
				return "-"
			}
			return strings.Join(l, ",")
		}
		return j(p1) + "|" + j(p2)
	})

	// ---- sigbits ----
	reg("fdb", func(a []string) string {
		return retainI32s("fdb", sigbits.FirstDiffBits(parseStrList(a[0])))
	})
	reg("countprefixes", func(a []string) string {
		sb := sigbits.New(parseStrList(a[0]))
		m0, cs := sb.CountPrefixes(mustI32(a[1]), mustI32(a[2]), mustI32(a[3]))
		return fmt.Sprintf("%d;%s", m0, showI32s(cs))
	})
	// cpm keys s:e:m;s:e:m;...: several CountPrefixes queries on ONE SigBits object
	reg("cpm", func(a []string) string {
		sb := sigbits.New(parseStrList(a[0]))
		outs := []string{}
		kept := [][]int32{} // the counters of every query stay with the caller
		for _, q := range strings.Split(a[1], ";") {
			f := strings.Split(q, ":")
			o := "PANIC"
			var got []int32
			func() {
				defer func() { recover() }()
				m0, cs := sb.CountPrefixes(mustI32(f[0]), mustI32(f[1]), mustI32(f[2]))
				o = fmt.Sprintf("%d;%s", m0, showI32s(cs))
				got = cs
			}()
			outs = append(outs, o)
			kept = append(kept, got)
		}
		for i, cs := range kept {
			if cs != nil && !strings.HasSuffix(outs[i], ";"+showI32s(cs)) {
				return fmt.Sprintf("RESULT-CHANGED: the counters returned by query %d changed after later queries", i)
			}
		}
		for _, cs := range kept { // ... and may be written to
			for j := range cs {
				cs[j] = -7
			}
		}
		return strings.Join(outs, "|")
	})
	// shardprobe prefixLen nkeys maxSize seed: keys sharing a prefix of prefixLen bytes (some of them sharing a few bytes
	// more, one equal to the prefix itself), plus two short keys after them; FirstDiffBits and the clauses of C17 are
	// evaluated here on the real code.  Output "ok" or the first discrepancy.
	reg("shardprobe", func(a []string) string {
		pl, nk, ms, seed := int(mustI64(a[0])), int(mustI64(a[1])), int(mustI64(a[2])), mustU64(a[3])
		pfx := strings.Repeat("a", pl)
		set := map[string]bool{pfx: true}
		for k := 0; len(set) < nk; k++ {
			r := mix64(seed + uint64(k))
			tail := []byte{byte('b' + r%5)}
			for j := uint64(0); j < r>>8%3; j++ {
				tail = append(tail, byte('b'+r>>(16+8*j)%3))
			}
			set[pfx+string(tail)] = true
		}
		keys := []string{}
		for k := range set {
			keys = append(keys, k)
		}
		keys = append(keys, "b", "bc")
		sort.Strings(keys)
		lcp := func(x, y string) int {
			i := 0
			for i < len(x) && i < len(y) && x[i] == y[i] {
				i++
			}
			return i
		}
		fd := sigbits.FirstDiffBits(keys)
		if len(fd) != len(keys)-1 {
			return fmt.Sprintf("FirstDiffBits returns %d values for %d keys", len(fd), len(keys))
		}
		for i := range fd {
			x, y := keys[i], keys[i+1]
			l := lcp(x, y)
			want := 8 * l
			if l < len(x) && l < len(y) {
				want += bits.LeadingZeros8(x[l] ^ y[l])
			}
			if int(fd[i]) != want {
				return fmt.Sprintf("FirstDiffBits[%d] = %d, want %d", i, fd[i], want)
			}
		}
		if len(a) > 4 && a[4] == "fd" {
			return "ok" // FirstDiffBits only (the check of C16 must not depend on ShardByPrefix)
		}
		L, B := sigbits.ShardByPrefix(keys, int32(ms))
		if len(B) != len(L)+1 || len(L) == 0 || B[0] != 0 || int(B[len(B)-1]) != len(keys) {
			return fmt.Sprintf("shape: %d prefix lengths, boundaries %v", len(L), B)
		}
		prev := ""
		for j := range L {
			s, e := int(B[j]), int(B[j+1])
			if e <= s || e-s > ms {
				return fmt.Sprintf("shard %d = [%d,%d) with maxSize %d", j, s, e, ms)
			}
			want := len(keys[s])
			for i := s; i+1 < e; i++ {
				if l := lcp(keys[i], keys[i+1]); l < want {
					want = l
				}
			}
			if int(L[j]) != want {
				return fmt.Sprintf("prefix length of shard %d = [%d,%d) is %d, want %d", j, s, e, L[j], want)
			}
			p := keys[s][:want]
			if j > 0 && !(prev < p) {
				return fmt.Sprintf("the prefix of shard %d does not sort after the one before", j)
			}
			prev = p
		}
		return "ok"
	})
	reg("shard", func(a []string) string {
		l, b := sigbits.ShardByPrefix(parseStrList(a[0]), mustI32(a[1]))
		out := showI32s(l) + ";" + showI32s(b)
		// the two results are the caller's, and separate: appending to either must not change the other
		l2 := append(l, -7, -7, -7, -7)
		if showI32s(l)+";"+showI32s(b) != out {
			return out + "(RESULTS-SHARE-MEMORY: appending to the prefix lengths changed the boundaries)"
		}
		b2 := append(b, -9, -9, -9, -9)
		if showI32s(l2[:len(l)])+";"+showI32s(b2[:len(b)]) != out {
			return out + "(RESULTS-SHARE-MEMORY: appending to the boundaries changed the prefix lengths)"
		}
		return out
	})
}
