package main

import (
	"fmt"
	"strconv"
	"strings"

	"github.com/openacid/low/bitstr"
	"github.com/openacid/low/bitword"
	"github.com/openacid/low/sigbits"
)

func showWordsDot(b []byte) string {
	if len(b) == 0 {
		return "e"
	}
	ss := make([]string, len(b))
	for i, v := range b {
		ss[i] = strconv.Itoa(int(v))
	}
	return strings.Join(ss, ".")
}

func bytesToU64s(b []byte) []uint64 {
	r := make([]uint64, len(b))
	for i, v := range b {
		r[i] = uint64(v)
	}
	return r
}

func init() {
	// ---- bitstr ----
	reg("bsnew", func(a []string) string {
		e := bitstr.New(string(parseBytes(a[0])), mustI32(a[1]), mustI32(a[2]))
		return fmt.Sprintf("%s,%d", showBytes(e), bitstr.Len(e))
	})
	reg("bscmp", func(a []string) string {
		x := bitstr.New(string(parseBytes(a[0])), mustI32(a[1]), mustI32(a[2]))
		y := bitstr.New(string(parseBytes(a[3])), mustI32(a[4]), mustI32(a[5]))
		return strconv.Itoa(bitstr.Cmp(x, y))
	})
	reg("bscmpupto", func(a []string) string {
		pa := parseBytes(a[0])
		b := bitstr.New(string(parseBytes(a[1])), mustI32(a[2]), mustI32(a[3]))
		bcopy := append([]byte(nil), b...)
		acopy := append([]byte(nil), pa...)
		r1 := bitstr.CmpUpto(pa, b)
		r2 := bitstr.StrCmpUpto(string(pa), b)
		if string(b) != string(bcopy) || string(pa) != string(acopy) {
			return "INPUT-MODIFIED"
		}
		return fmt.Sprintf("%d,%d", r1, r2)
	})

	// ---- bitword ----
	reg("bwfromstr", func(a []string) string {
		bw := bitword.BitWord[int(mustI64(a[0]))]
		return showU64s(bytesToU64s(bw.FromStr(string(parseBytes(a[1])))))
	})
	reg("bwtostr", func(a []string) string {
		bw := bitword.BitWord[int(mustI64(a[0]))]
		ws := parseU64s(a[1])
		b := make([]byte, len(ws))
		for i, w := range ws {
			b[i] = byte(w)
		}
		return showBytes([]byte(bw.ToStr(b)))
	})
	reg("bwrt", func(a []string) string {
		bw := bitword.BitWord[int(mustI64(a[0]))]
		return showBytes([]byte(bw.ToStr(bw.FromStr(string(parseBytes(a[1]))))))
	})
	reg("bwget", func(a []string) string {
		bw := bitword.BitWord[int(mustI64(a[0]))]
		return strconv.Itoa(int(bw.Get(string(parseBytes(a[1])), int(mustI64(a[2])))))
	})
	reg("bwfirstdiff", func(a []string) string {
		bw := bitword.BitWord[int(mustI64(a[0]))]
		return strconv.Itoa(bw.FirstDiff(string(parseBytes(a[1])), string(parseBytes(a[2])),
			int(mustI64(a[3])), int(mustI64(a[4]))))
	})
	reg("bwstrs", func(a []string) string {
		bw := bitword.BitWord[int(mustI64(a[0]))]
		strs := parseStrList(a[1])
		f := bw.FromStrs(strs)
		back := bw.ToStrs(f)
		p1 := make([]string, len(f))
		for i, w := range f {
			p1[i] = showWordsDot(w)
		}
		p2 := make([]string, len(back))
		for i, s := range back {
			p2[i] = showBytes([]byte(s))
		}
		j := func(l []string) string {
			if len(l) == 0 {
				return "-"
			}
			return strings.Join(l, ",")
		}
		return j(p1) + "|" + j(p2)
	})

	// ---- sigbits ----
	reg("fdb", func(a []string) string {
		return showI32s(sigbits.FirstDiffBits(parseStrList(a[0])))
	})
	reg("countprefixes", func(a []string) string {
		sb := sigbits.New(parseStrList(a[0]))
		m0, cs := sb.CountPrefixes(mustI32(a[1]), mustI32(a[2]), mustI32(a[3]))
		return fmt.Sprintf("%d;%s", m0, showI32s(cs))
	})
	reg("shard", func(a []string) string {
		l, b := sigbits.ShardByPrefix(parseStrList(a[0]), mustI32(a[1]))
		return showI32s(l) + ";" + showI32s(b)
	})
}
