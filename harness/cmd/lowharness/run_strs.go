package main

import (
	"encoding/binary"
	"fmt"
	"math/bits"
	"math/rand"
	"sort"
	"strconv"
	"strings"

	"github.com/openacid/low/bitstr"
	"github.com/openacid/low/bitword"
	"github.com/openacid/low/sigbits"
)

func showWordsDot(b []byte) string {
	if len(b) == 0 {
		return "e"
	}
	ss := make([]string, len(b))
	for i, v := range b {
		ss[i] = strconv.Itoa(int(v))
	}
	return strings.Join(ss, ".")
}

func bytesToU64s(b []byte) []uint64 {
	r := make([]uint64, len(b))
	for i, v := range b {
		r[i] = uint64(v)
	}
	return r
}

// Several call shapes: StrCmpUpto is inlined into its caller, and what lies next to its string header
// depends on the caller's frame layout.

//go:noinline
func strCmpUptoCallA(a string, b []byte) (r string) {
	defer func() {
		if x := recover(); x != nil {
			r = "PANIC"
		}
	}()
	return strconv.Itoa(bitstr.StrCmpUpto(a, b))
}

//go:noinline
func strCmpUptoCallB(s string, e []byte) (r string) {
	defer func() {
		if x := recover(); x != nil {
			r = fmt.Sprint("PANIC: ", x)
		}
	}()
	return fmt.Sprint(bitstr.StrCmpUpto(s, e))
}

//go:noinline
func strCmpUptoCallC(a string, b []byte) (r string) {
	defer func() {
		if x := recover(); x != nil {
			r = "PANIC"
		}
	}()
	var pad [4]uint64
	pad[len(a)&3] = uint64(len(b))
	v := bitstr.StrCmpUpto(a, b)
	if pad[len(a)&3] != uint64(len(b)) {
		return "?"
	}
	return strconv.Itoa(v)
}

var strCmpUptoFn = bitstr.StrCmpUpto

//go:noinline
func strCmpUptoCallD(a string, b []byte) (r string) {
	defer func() {
		if x := recover(); x != nil {
			r = "PANIC"
		}
	}()
	return strconv.Itoa(strCmpUptoFn(a, b)) // not inlined
}

// strCmpUptoCall runs every call shape; with poisonStack the stack region the callee is about to use is
// filled with a known pattern immediately before each call
func strCmpUptoCall(a string, b []byte, poisonStack bool, pat uint64) string {
	r := ""
	for i, f := range []func(string, []byte) string{strCmpUptoCallA, strCmpUptoCallB, strCmpUptoCallC, strCmpUptoCallD} {
		if poisonStack {
			poisonSink += poison(pat)
		}
		x := f(a, b)
		if strings.HasPrefix(x, "PANIC") {
			x = "PANIC"
		}
		if i == 0 {
			r = x
		} else if x != r {
			return r + "|" + x
		}
	}
	return r
}

var poisonSink uint64

// poison fills the stack region that the next call will use with a known pattern
//
//go:noinline
func poison(p uint64) uint64 {
	var a [2048]uint64
	for i := range a {
		a[i] = p
	}
	s := uint64(0)
	for i := range a {
		s += a[i]
	}
	return s
}

// strCmpUptoOn runs StrCmpUpto with different bytes lying next to its arguments on the stack:
// a pure function of (a, b) must not notice
func strCmpUptoOn(fresh bool, a string, b []byte) string {
	if !fresh {
		return strCmpUptoCall(a, b, false, 0)
	}
	r := ""
	for i, p := range []uint64{0, 3, ^uint64(0)} {
		x := strCmpUptoCall(a, b, true, p)
		if i == 0 {
			r = x
		} else if x != r {
			return r + "|" + x
		}
	}
	ch := make(chan string)
	go func() { ch <- strCmpUptoCall(a, b, false, 0) }()
	if x := <-ch; x != r {
		return r + "|" + x
	}
	return r
}

func init() {
	// ---- bitstr ----
	reg("bsnew", func(a []string) string {
		e := bitstr.New(string(parseBytes(a[0])), mustI32(a[1]), mustI32(a[2]))
		return fmt.Sprintf("%s,%d", outBytes(e), bitstr.Len(e))
	})
	reg("bscmp", func(a []string) string {
		x := bitstr.New(string(parseBytes(a[0])), mustI32(a[1]), mustI32(a[2]))
		y := bitstr.New(string(parseBytes(a[3])), mustI32(a[4]), mustI32(a[5]))
		return strconv.Itoa(bitstr.Cmp(x, y))
	})
	reg("bscmpupto", func(a []string) string {
		pa := parseBytes(a[0])
		b := bitstr.New(string(parseBytes(a[1])), mustI32(a[2]), mustI32(a[3]))
		bcopy := append([]byte(nil), b...)
		acopy := append([]byte(nil), pa...)
		r1 := bitstr.CmpUpto(pa, b)
		// StrCmpUpto reinterprets the string header through unsafe: run it on this goroutine and on a
		// fresh one (a fresh stack holds different bytes next to the header)
		r2 := strCmpUptoOn(false, string(pa), b)
		r3 := strCmpUptoOn(true, string(pa), b)
		// the two arguments may share memory (a caller comparing a bit string with a prefix of its own bytes): the
		// answer is a function of the contents only
		alias := ""
		if len(pa) > 0 && len(pa) <= len(b) && string(b[:len(pa)]) == string(pa) {
			if x := bitstr.CmpUpto(b[:len(pa)], b); x != r1 {
				alias = fmt.Sprintf("(a-is-a-view-of-b:%d)", x)
			}
		}
		if len(b) > 0 && len(b) <= len(pa) && string(pa[:len(b)]) == string(b) {
			if x := bitstr.CmpUpto(pa, pa[:len(b):len(b)]); x != r1 {
				alias = fmt.Sprintf("(b-is-a-view-of-a:%d)", x)
			}
		}
		if string(b) != string(bcopy) || string(pa) != string(acopy) {
			return "INPUT-MODIFIED"
		}
		if alias != "" {
			return fmt.Sprintf("%d%s,%s", r1, alias, r2)
		}
		if r3 != r2 {
			return fmt.Sprintf("%d,%s(other-stack-contents:%s)", r1, r2, r3)
		}
		return fmt.Sprintf("%d,%s", r1, r2)
	})

	// ---- bitword ----
	reg("bwfromstr", func(a []string) string {
		bw := bitword.BitWord[int(mustI64(a[0]))]
		return showU64s(bytesToU64s(bw.FromStr(string(parseBytes(a[1])))))
	})
	reg("bwtostr", func(a []string) string {
		bw := bitword.BitWord[int(mustI64(a[0]))]
		ws := parseU64s(a[1])
		b := make([]byte, len(ws))
		for i, w := range ws {
			b[i] = byte(w)
		}
		return outBytes([]byte(bw.ToStr(b)))
	})
	reg("bwrt", func(a []string) string {
		bw := bitword.BitWord[int(mustI64(a[0]))]
		return outBytes([]byte(bw.ToStr(bw.FromStr(string(parseBytes(a[1]))))))
	})
	reg("bwget", func(a []string) string {
		bw := bitword.BitWord[int(mustI64(a[0]))]
		return strconv.Itoa(int(bw.Get(string(parseBytes(a[1])), int(mustI64(a[2])))))
	})
	reg("bwfirstdiff", func(a []string) string {
		bw := bitword.BitWord[int(mustI64(a[0]))]
		return strconv.Itoa(bw.FirstDiff(string(parseBytes(a[1])), string(parseBytes(a[2])),
			int(mustI64(a[3])), int(mustI64(a[4]))))
	})
	reg("bwstrs", func(a []string) string {
		bw := bitword.BitWord[int(mustI64(a[0]))]
		strs := parseStrList(a[1])
		f := bw.FromStrs(strs)
		back := bw.ToStrs(f)
		p1 := make([]string, len(f))
		for i, w := range f {
			p1[i] = showWordsDot(w)
		}
		// the elements belong to the caller: appending to one (as a caller adding a terminator would) must not
		// change another, and a second conversion must not change the first one's result
		for i := range f {
			_ = append(f[i], 0xaa, 0xbb, 0xcc)
		}
		_ = bw.FromStrs([]string{"\xff\xff\xff\xff\xff\xff\xff\xff", "\xff\xff"})
		for i, w := range f {
			if showWordsDot(w) != p1[i] {
				return fmt.Sprintf("RESULT-CHANGED: element %d of the FromStrs result after appending to the other elements", i)
			}
		}

		p2 := make([]string, len(back))
		for i, s := range back {
			p2[i] = outBytes([]byte(s))
		}
		j := func(l []string) string {
			if len(l) == 0 {
				return "-"
			}
			return strings.Join(l, ",")
		}
		return j(p1) + "|" + j(p2)
	})

	// ---- sigbits ----
	reg("fdb", func(a []string) string {
		return retainI32s("fdb", sigbits.FirstDiffBits(parseStrList(a[0])))
	})
	reg("countprefixes", func(a []string) string {
		sb := sigbits.New(parseStrList(a[0]))
		m0, cs := sb.CountPrefixes(mustI32(a[1]), mustI32(a[2]), mustI32(a[3]))
		return fmt.Sprintf("%d;%s", m0, showI32s(cs))
	})
	// cpm keys s:e:m;s:e:m;...: several CountPrefixes queries on ONE SigBits object
	reg("cpm", func(a []string) string {
		sb := sigbits.New(parseStrList(a[0]))
		outs := []string{}
		kept := [][]int32{} // the counters of every query stay with the caller
		for _, q := range strings.Split(a[1], ";") {
			f := strings.Split(q, ":")
			o := "PANIC"
			var got []int32
			func() {
				defer func() { recover() }()
				m0, cs := sb.CountPrefixes(mustI32(f[0]), mustI32(f[1]), mustI32(f[2]))
				o = fmt.Sprintf("%d;%s", m0, showI32s(cs))
				got = cs
			}()
			outs = append(outs, o)
			kept = append(kept, got)
		}
		for i, cs := range kept {
			if cs != nil && !strings.HasSuffix(outs[i], ";"+showI32s(cs)) {
				return fmt.Sprintf("RESULT-CHANGED: the counters returned by query %d changed after later queries", i)
			}
		}
		for _, cs := range kept { // ... and may be written to
			for j := range cs {
				cs[j] = -7
			}
		}
		return strings.Join(outs, "|")
	})
	// fdbprobe nkeys seed: FirstDiffBits (and two CountPrefixes queries) on a key set too large for the driver --
	// nkeys strictly ascending keys of 5..9 bytes with runs of shared prefixes -- against a naive per-pair reference
	// evaluated here; every entry is compared. The driver expects "ok" (theorems C16_firstDiffBits, C16_count).
	reg("fdbprobe", func(a []string) string {
		n := int(mustI64(a[0]))
		r := rand.New(rand.NewSource(mustI64(a[1])))
		keys := make([]string, n)
		v := uint64(r.Intn(1000))
		for i := range keys {
			step := uint64(1 + r.Intn(3))
			if r.Intn(50) == 0 {
				step = uint64(1) << uint(8+r.Intn(20))
			}
			v += step
			var b [9]byte
			binary.BigEndian.PutUint64(b[1:], v)
			b[0] = byte(v >> 61)
			keys[i] = string(b[:5+int(v%5)])
			if i > 0 && keys[i] <= keys[i-1] { // keep strictly ascending: fall back to the full width
				keys[i] = string(b[:])
			}
		}
		naive := func(x, y string) int32 {
			l := len(x)
			if len(y) < l {
				l = len(y)
			}
			for i := 0; i < l; i++ {
				if d := x[i] ^ y[i]; d != 0 {
					return int32(8*i + bits.LeadingZeros8(d))
				}
			}
			return int32(8 * l)
		}
		for i := 1; i < n; i++ {
			if keys[i] <= keys[i-1] {
				return "ok" // generator could not keep the order (9-byte keys exhausted): nothing to say
			}
		}
		fd := sigbits.FirstDiffBits(keys)
		if len(fd) != n-1 {
			return fmt.Sprintf("FirstDiffBits returns %d values for %d keys", len(fd), n)
		}
		for i := 0; i+1 < n; i++ {
			if want := naive(keys[i], keys[i+1]); fd[i] != want {
				return fmt.Sprintf("FirstDiffBits[%d] = %d, want %d (keys %x, %x)", i, fd[i], want, keys[i], keys[i+1])
			}
		}
		sb := sigbits.New(keys)
		for _, rg := range [][2]int{{0, n}, {n / 3, n - n/5}, {n/2 - 1, n/2 + 3}} {
			s, e := rg[0], rg[1]
			if e-s < 2 {
				continue
			}
			m0, cs := sb.CountPrefixes(int32(s), int32(e), 3)
			min := int32(1 << 30)
			for i := s; i+1 < e; i++ {
				if w := naive(keys[i], keys[i+1]); w < min {
					min = w
				}
			}
			if m0 != min {
				return fmt.Sprintf("CountPrefixes(%d,%d,3): minimum %d, want %d", s, e, m0, min)
			}
			// counter 0: distinct m0-bit prefixes = 1 + number of pairs whose first difference is below m0 ... i.e. 1
			if len(cs) != 3 || cs[0] != 1 {
				return fmt.Sprintf("CountPrefixes(%d,%d,3) = %v: the first counter must be 1 (all keys share m0 bits)", s, e, cs)
			}
			// counter 1: distinct (m0+1)-bit prefixes = 1 + number of pairs differing at bit m0 exactly
			c1 := int32(1)
			for i := s; i+1 < e; i++ {
				if naive(keys[i], keys[i+1]) <= min {
					c1++
				}
			}
			if cs[1] != c1 {
				return fmt.Sprintf("CountPrefixes(%d,%d,3): second counter %d, want %d", s, e, cs[1], c1)
			}
		}
		return "ok"
	})
	// shardprobe prefixLen nkeys maxSize seed: keys sharing a prefix of prefixLen bytes (some of them sharing a few bytes
	// more, one equal to the prefix itself), plus two short keys after them; FirstDiffBits and the clauses of C17 are
	// evaluated here on the real code.  Output "ok" or the first discrepancy.
	reg("shardprobe", func(a []string) string {
		pl, nk, ms, seed := int(mustI64(a[0])), int(mustI64(a[1])), int(mustI64(a[2])), mustU64(a[3])
		pfx := strings.Repeat("a", pl)
		set := map[string]bool{pfx: true}
		for k := 0; len(set) < nk; k++ {
			r := mix64(seed + uint64(k))
			tail := []byte{byte('b' + r%5)}
			for j := uint64(0); j < r>>8%3; j++ {
				tail = append(tail, byte('b'+r>>(16+8*j)%3))
			}
			set[pfx+string(tail)] = true
		}
		keys := []string{}
		for k := range set {
			keys = append(keys, k)
		}
		keys = append(keys, "b", "bc")
		sort.Strings(keys)
		lcp := func(x, y string) int {
			i := 0
			for i < len(x) && i < len(y) && x[i] == y[i] {
				i++
			}
			return i
		}
		fd := sigbits.FirstDiffBits(keys)
		if len(fd) != len(keys)-1 {
			return fmt.Sprintf("FirstDiffBits returns %d values for %d keys", len(fd), len(keys))
		}
		for i := range fd {
			x, y := keys[i], keys[i+1]
			l := lcp(x, y)
			want := 8 * l
			if l < len(x) && l < len(y) {
				want += bits.LeadingZeros8(x[l] ^ y[l])
			}
			if int(fd[i]) != want {
				return fmt.Sprintf("FirstDiffBits[%d] = %d, want %d", i, fd[i], want)
			}
		}
		if len(a) > 4 && a[4] == "fd" {
			return "ok" // FirstDiffBits only (the check of C16 must not depend on ShardByPrefix)
		}
		L, B := sigbits.ShardByPrefix(keys, int32(ms))
		if len(B) != len(L)+1 || len(L) == 0 || B[0] != 0 || int(B[len(B)-1]) != len(keys) {
			return fmt.Sprintf("shape: %d prefix lengths, boundaries %v", len(L), B)
		}
		prev := ""
		for j := range L {
			s, e := int(B[j]), int(B[j+1])
			if e <= s || e-s > ms {
				return fmt.Sprintf("shard %d = [%d,%d) with maxSize %d", j, s, e, ms)
			}
			want := len(keys[s])
			for i := s; i+1 < e; i++ {
				if l := lcp(keys[i], keys[i+1]); l < want {
					want = l
				}
			}
			if int(L[j]) != want {
				return fmt.Sprintf("prefix length of shard %d = [%d,%d) is %d, want %d", j, s, e, L[j], want)
			}
			p := keys[s][:want]
			if j > 0 && !(prev < p) {
				return fmt.Sprintf("the prefix of shard %d does not sort after the one before", j)
			}
			prev = p
		}
		return "ok"
	})
	reg("shard", func(a []string) string {
		l, b := sigbits.ShardByPrefix(parseStrList(a[0]), mustI32(a[1]))
		out := showI32s(l) + ";" + showI32s(b)
		// the two results are the caller's, and separate: appending to either must not change the other
		l2 := append(l, -7, -7, -7, -7)
		if showI32s(l)+";"+showI32s(b) != out {
			return out + "(RESULTS-SHARE-MEMORY: appending to the prefix lengths changed the boundaries)"
		}
		b2 := append(b, -9, -9, -9, -9)
		if showI32s(l2[:len(l)])+";"+showI32s(b2[:len(b)]) != out {
			return out + "(RESULTS-SHARE-MEMORY: appending to the boundaries changed the prefix lengths)"
		}
		return out
	})
}
