package main

import (
	"fmt"
	"math/bits"
	"sort"
	"strings"
)

var alphabet7 = []uint64{0, ^uint64(0), 1, 1 << 63, 0xaaaaaaaaaaaaaaaa, 0x00000000ffffffff, 0x8000000000000001}

// smallBitmaps enumerates every bitmap of at most maxLen words over the alphabet
func smallBitmaps(alpha []uint64, maxLen int, f func([]uint64)) {
	var rec func(cur []uint64)
	rec = func(cur []uint64) {
		f(cur)
		if len(cur) == maxLen {
			return
		}
		for _, w := range alpha {
			rec(append(append([]uint64(nil), cur...), w))
		}
	}
	rec(nil)
}

func popcount(ws []uint64) int {
	n := 0
	for _, w := range ws {
		n += bits.OnesCount64(w)
	}
	return n
}

// boundaryPositions: positions in [0, n) that sit on word / 32 / 128 boundaries, plus a few random ones
func (g *G) boundaryPositions(n int, extra int) []int {
	set := map[int]bool{}
	add := func(p int) {
		if p >= 0 && p < n {
			set[p] = true
		}
	}
	for base := 0; base <= n; base += 64 {
		for _, d := range []int{-33, -32, -1, 0, 1, 31, 32, 33, 62, 63} {
			add(base + d)
		}
	}
	for k := 0; k < extra; k++ {
		add(g.intn(n))
	}
	r := make([]int, 0, len(set))
	for p := range set {
		r = append(r, p)
	}
	sort.Ints(r)
	return r
}

// largeWords draws a long bitmap: dense (many more than 2^16 one-bits), with some empty stretches
func (g *G) largeWords(n int, variant int) []uint64 {
	ws := make([]uint64, n)
	for i := range ws {
		switch {
		case variant%3 == 0:
			ws[i] = ^uint64(0)
		case i%97 < 5:
			ws[i] = 0
		default:
			ws[i] = g.r.Uint64() | g.r.Uint64()
		}
	}
	ws[g.intn(n)] = 0
	return ws
}

func init() {
	gens["C01"] = func(g *G) {
		g.emit("tbl masks")
		// exhaustive small scope: all bitmaps of <= 2 words over a 7-word alphabet x all positions
		smallBitmaps(alphabet7, 2, func(ws []uint64) {
			s := showU64s(ws)
			g.emit("idxrank64 %s 0", s)
			g.emit("idxrank64 %s 1", s)
			g.emit("idxrank128 %s", s)
			for i := 0; i < 64*len(ws); i++ {
				g.emit("rank64 %s 0 %d", s, i)
				g.emit("rank64 %s 1 %d", s, i)
				g.emit("rank128 %s %d", s, i)
			}
		})
		// random structured bitmaps, every parity of length
		maxLen := g.n(12, 80)
		reps := g.n(3, 4)
		for l := 0; l <= maxLen; l++ {
			for rep := 0; rep < reps; rep++ {
				ws := g.words(l, rep%2 == 1)
				s := showU64s(ws)
				g.emit("idxrank64 %s %d", s, rep%2)
				g.emit("idxrank128 %s", s)
				for _, i := range g.boundaryPositions(64*l, 12) {
					g.emit("rank64 %s %d %d", s, rep%2, i)
					g.emit("rank128 %s %d", s, i)
				}
			}
		}
		// word counts swept around 128 and 256 (index lengths around powers of two), two bitmaps per length so that
		// an index built earlier is still in use when the next one is built
		for l := 120; l <= 262; l++ {
			if l > 134 && l < 250 {
				continue
			}
			for rep := 0; rep < 2; rep++ {
				ws := g.words(l, rep == 1)
				s := showU64s(ws)
				g.emit("idxrank128 %s", s)
				g.emit("idxrank64 %s %d", s, rep)
				for _, i := range []int{65, 64*l - 1, g.intn(64 * l)} {
					g.emit("rank128 %s %d", s, i)
					g.emit("rank64 %s %d %d", s, rep, i)
				}
			}
		}
		// large bitmaps: more than 2^16 bits and more than 2^16 one-bits (the naive specification is not
		// evaluated at this size; the model, proved equal to it, decides)
		for _, l := range []int{1030, 2101} {
			for rep := 0; rep < g.n(1, 3); rep++ {
				ws := g.largeWords(l, rep)
				s := showU64s(ws)
				g.emit("idxrank64 %s 1", s)
				g.emit("idxrank128 %s", s)
				for k := 0; k < g.n(24, 200); k++ {
					i := []int{64*l - 1, 64*l - 64, 65535, 65536, 65537, 64*l - 65, g.intn(64 * l), g.intn(64 * l)}[k%8]
					g.emit("rank64 %s %d %d", s, k%2, i)
					g.emit("rank128 %s %d", s, i)
				}
			}
		}
	}

	gens["C02"] = func(g *G) {
		g.emit("tbl select8")
		g.emit("tbl masks")
		// table exhaustive through the public API: every (byte, k) in each of the 8 byte lanes
		for lane := 0; lane < 8; lane++ {
			for b := 1; b < 256; b++ {
				ws := []uint64{uint64(b) << uint(8*lane)}
				s := showU64s(ws)
				for k := 0; k < bits.OnesCount(uint(b)); k++ {
					g.emit("sel32 %s %d", s, k)
					g.emit("sel32r64 %s %d", s, k)
				}
			}
		}
		// a dense word before the lane word, so that the in-word search is entered with an offset
		for lane := 0; lane < 8; lane++ {
			for _, b := range []int{1, 0x80, 0xff, 0xa5, 0x7e} {
				ws := []uint64{0xffff0000ffff, 0, uint64(b) << uint(8*lane), 0, 0}
				s := showU64s(ws)
				for k := 0; k < popcount(ws); k++ {
					g.emit("sel32 %s %d", s, k)
					g.emit("sel32r64 %s %d", s, k)
				}
			}
		}
		smallBitmaps(alphabet7, 2, func(ws []uint64) {
			s := showU64s(ws)
			g.emit("idxsel32 %s", s)
			g.emit("idxsel32r64 %s", s)
			for k := 0; k < popcount(ws); k++ {
				g.emit("sel32 %s %d", s, k)
				g.emit("sel32r64 %s %d", s, k)
			}
		})
		maxLen := g.n(12, 60)
		reps := g.n(4, 6)
		for l := 0; l <= maxLen; l++ {
			for rep := 0; rep < reps; rep++ {
				ws := g.words(l, rep%2 == 0)
				n := popcount(ws)
				s := showU64s(ws)
				g.emit("idxsel32 %s", s)
				g.emit("idxsel32r64 %s", s)
				is := map[int]bool{}
				if n <= 70 {
					for i := 0; i < n; i++ {
						is[i] = true
					}
				} else {
					for k := 0; k*32 <= n; k++ {
						for _, d := range []int{-1, 0, 1} {
							if i := 32*k + d; i >= 0 && i < n {
								is[i] = true
							}
						}
					}
					is[n-1], is[n-2] = true, true
					for k := 0; k < 10; k++ {
						is[g.intn(n)] = true
					}
				}
				keys := make([]int, 0, len(is))
				for i := range is {
					keys = append(keys, i)
				}
				sort.Ints(keys)
				for _, i := range keys {
					g.emit("sel32 %s %d", s, i)
					g.emit("sel32r64 %s %d", s, i)
				}
			}
		}
		// sparse stretches: clusters of one-bits separated by more than 256 empty words (two consecutive select
		// samples more than 16384 bits apart), cluster sizes chosen so that the 32nd, 64th, ... one-bit falls in the
		// middle of a word that also holds its predecessor
		for rep := 0; rep < g.n(6, 40); rep++ {
			ws := []uint64{}
			nclusters := 2 + g.intn(3)
			for c := 0; c < nclusters; c++ {
				// a cluster: a few words whose one-bits add up to around a multiple of 32
				want := 32*(1+g.intn(2)) + []int{-3, -1, 0, 1, 2, 5}[g.intn(6)]
				for want > 0 {
					k := 1 + g.intn(12)
					if k > want {
						k = want
					}
					w := uint64(0)
					for bitsSet := 0; bitsSet < k; {
						b := uint(g.intn(64))
						if w&(1<<b) == 0 {
							w |= 1 << b
							bitsSet++
						}
					}
					ws = append(ws, w)
					want -= k
					if g.intn(3) == 0 {
						ws = append(ws, 0)
					}
				}
				if c < nclusters-1 {
					ws = append(ws, make([]uint64, 257+g.intn(120))...)
				}
			}
			n := popcount(ws)
			s := showU64s(ws)
			g.emit("idxsel32 %s", s)
			g.emit("idxsel32r64 %s", s)
			is := make([]uint64, n)
			for i := range is {
				is[i] = uint64(i)
			}
			g.emit("sel32m %s %s", s, showU64s(is))
			g.emit("sel32r64m %s %s", s, showU64s(is))
		}
		// large bitmaps: more than 2^16 one-bits
		for _, l := range []int{1030, 2101} {
			if l > 2000 && !g.thorough() {
				continue
			}
			for rep := 0; rep < g.n(1, 3); rep++ {
				ws := g.largeWords(l, rep)
				n := popcount(ws)
				s := showU64s(ws)
				g.emit("idxsel32 %s", s)
				g.emit("idxsel32r64 %s", s)
				is := []uint64{}
				for k := 0; k < g.n(16, 200) && n > 0; k++ {
					i := []int{n - 1, n - 2, 65535, 65536, 32767, 32768, g.intn(n), g.intn(n)}[k%8]
					if i < 0 || i >= n {
						i = g.intn(n)
					}
					is = append(is, uint64(i))
				}
				if len(is) > 0 {
					g.emit("sel32m %s %s", s, showU64s(is))
					g.emit("sel32r64m %s %s", s, showU64s(is))
				}
			}
		}
	}

	gens["C13"] = func(g *G) {
		g.emit("tbl masks")
		edges := []int{0, 1, 31, 32, 62, 63, 64, 65, 127, 128, 129, 190, 191, 192}
		smallBitmaps([]uint64{0, 1, 1 << 63, ^uint64(0), 1 << 31}, 3, func(ws []uint64) {
			if len(ws) == 0 {
				return
			}
			s := showU64s(ws)
			L := 64 * len(ws)
			for _, i := range edges {
				for _, e := range edges {
					if i <= e && e <= L && i < L {
						g.emit("nextone %s %d %d", s, i, e)
						if e >= 1 {
							g.emit("prevone %s %d %d", s, i, e)
						}
					}
				}
			}
		})
		maxLen := g.n(12, 60)
		reps := g.n(6, 10)
		for l := 1; l <= maxLen; l++ {
			for rep := 0; rep < reps; rep++ {
				ws := g.words(l, rep%3 != 0)
				s := showU64s(ws)
				L := 64 * l
				ps := g.boundaryPositions(L+1, 6)
				for k := 0; k < g.n(14, 20); k++ {
					i := ps[g.intn(len(ps))]
					e := ps[g.intn(len(ps))]
					if i > e {
						i, e = e, i
					}
					if i >= L {
						continue
					}
					g.emit("nextone %s %d %d", s, i, e)
					if e >= 1 {
						g.emit("prevone %s %d %d", s, i, e)
					}
				}
			}
		}
		// a single one-bit at every word position around 256 and 512 of a 600-word bitmap (block-wise scans), queried
		// from both ends; consecutive cases have the same length, i.e. the same argument address with new contents
		for _, wpos := range []int{240, 250, 251, 252, 253, 254, 255, 256, 257, 258, 260, 270, 500, 507, 508, 509, 510, 511, 512, 513, 515, 520} {
			ws := make([]uint64, 600)
			ws[0] = 1
			ws[wpos] = 1 << uint(g.intn(64))
			ws[599] = 1 << 63
			s := showU64s(ws)
			bit := 64*wpos + bits.TrailingZeros64(ws[wpos])
			for _, ie := range [][2]int{{1, 38400}, {1, 38399}, {64, bit + 1}, {65, bit}, {1, 64 * wpos}, {bit + 1, 38400}, {bit, 38399}} {
				if ie[0] <= ie[1] {
					g.emit("nextone %s %d %d", s, ie[0], ie[1])
					g.emit("prevone %s %d %d", s, ie[0], ie[1])
				}
			}
		}
		for rep := 0; rep < g.n(3, 12); rep++ {
			l := 1500 + 100*rep
			ws := make([]uint64, l)
			ws[0] = 0x80
			ws[l-1] = 1
			s1 := showU64s(ws)
			e := 64*(l-1) - g.intn(200)
			g.emit("prevone %s 0 %d", s1, e)
			g.emit("nextone %s 8 %d", s1, e)
			// the same bitmap with one more bit in the middle of the stretch just scanned
			mid := 64*(l/2) + g.intn(64)
			ws[mid/64] |= 1 << uint(mid%64)
			s2 := showU64s(ws)
			g.emit("prevone %s 0 %d", s2, e)
			g.emit("nextone %s 8 %d", s2, e)
			g.emit("prevone %s 0 %d", s2, mid)
			g.emit("prevone %s 0 %d", s2, mid+1)
		}
		// long scans: more than 1024 empty words between the query and the answer
		for rep := 0; rep < g.n(2, 8); rep++ {
			l := 1100 + g.intn(1200)
			ws := make([]uint64, l)
			a, b := g.intn(3), l-1-g.intn(3)
			ws[a] = 1 << uint(g.intn(64))
			ws[b] = 1 << uint(g.intn(64))
			s := showU64s(ws)
			for _, i := range []int{0, 64*a + 63, 64 * (a + 1), 64*(a+1) + 1, 70000} {
				for _, e := range []int{64 * l, 64*l - 1, 64 * b, 64*b + 1, 65536, 65537} {
					if i <= e && i < 64*l {
						g.emit("nextone %s %d %d", s, i, e)
						if e >= 1 {
							g.emit("prevone %s %d %d", s, i, e)
						}
					}
				}
			}
		}
	}

	gens["C14"] = func(g *G) {
		g.emit("tbl masks")
		widths := []int{1, 2, 4, 8, 16, 32, 64}
		for _, w := range widths {
			maxN := g.n(70, 200)
			for _, n := range []int{0, 1, 2, 3, 64/w - 1, 64 / w, 64/w + 1, 2 * 64 / w, 2*64/w + 1, maxN} {
				if n < 0 {
					continue
				}
				for rep := 0; rep < g.n(2, 5); rep++ {
					vs := make([]uint64, n)
					for i := range vs {
						vs[i] = g.word() // bits above w set on purpose
					}
					g.emit("join %s %d", showU64s(vs), w)
				}
			}
			// Getw on arbitrary bitmaps, every index
			for rep := 0; rep < g.n(3, 8); rep++ {
				ws := g.words(1+g.intn(4), false)
				s := showU64s(ws)
				for i := 0; i < 64*len(ws)/w; i++ {
					if 64*len(ws)/w > 80 && g.intn(4) != 0 {
						continue
					}
					g.emit("getw %s %d %d", s, i, w)
				}
			}
		}
		// Slice: all (from,to) on and off word boundaries
		edges := []int{0, 1, 3, 31, 63, 64, 65, 70, 127, 128, 129, 191, 192, 200, 255, 256, 320, 383, 384}
		for l := 0; l <= 6; l++ {
			for rep := 0; rep < g.n(2, 4); rep++ {
				ws := g.words(l, false)
				s := showU64s(ws)
				for _, f := range edges {
					for _, t := range edges {
						if f <= t && t <= 64*l {
							g.emit("slice %s %d %d", s, f, t)
						}
					}
				}
				g.emit("slice %s 0 0", s)
			}
		}
		g.emit("slice 255,255 3 70")
		for _, w := range []int{1, 8, 64} {
			vs := make([]uint64, 70000/w+3)
			for i := range vs {
				vs[i] = g.word()
			}
			g.emit("join %s %d", showU64s(vs), w)
		}
		// the int32 boundary of the total bit length (thorough tier, and whenever the package's source changed)
		if g.thorough() {
			for _, nw := range [][2]int{{1<<26 - 1, 32}, {1<<25 - 1, 64}, {1<<27 - 3, 16}, {1 << 20, 64}} {
				g.emit("joinprobe %d %d %d", nw[0], nw[1], g.r.Int63())
			}
		}
		g.emit("joinprobe 100000 32 7")
		g.emit("joinprobe 70001 8 9")
		big := g.largeWords(1100, 1)
		for _, ft := range [][2]int{{0, 70400}, {63, 70000}, {65535, 65537}, {65536, 70400}, {1, 70399}} {
			g.emit("slice %s %d %d", showU64s(big), ft[0], ft[1])
		}
		for _, iw := range [][2]int{{1099, 64}, {2199, 32}, {70399, 1}, {65536, 1}, {8192, 8}} {
			g.emit("getw %s %d %d", showU64s(big), iw[0], iw[1])
		}
	}

	gens["C12"] = func(g *G) {
		posLists := [][]int32{{}, {0}, {63}, {64}, {65}, {63, 64, 65}, {0, 127, 128}, {1, 3, 64, 129}, {5, 1000}, {0, 1, 2, 3, 4, 5, 6, 7},
			{3, 3, 3}, {64, 64}, {640}, {127}, {191, 192}}
		for rep := 0; rep < g.n(40, 300); rep++ {
			n := g.intn(12)
			l := make([]int32, 0, n)
			p := int32(g.intn(70))
			for k := 0; k < n; k++ {
				l = append(l, p)
				switch g.intn(6) {
				case 0:
					p += 0 // repeated position (ascending, not strictly)
				case 1:
					p += 64
				case 2:
					p += int32(64*g.intn(5) + g.intn(3))
				default:
					p += int32(1 + g.intn(70))
				}
			}
			posLists = append(posLists, l)
		}
		posLists = append(posLists, []int32{0, 65535, 65536, 131071, 200000}, []int32{1 << 20})
		// long hole-free runs 0..k-1 and long runs with one hole (whole-word fast paths)
		for _, k := range []int{32768, 32769, 40000, 65537} {
			run := make([]int32, 0, k)
			for i := 0; i < k; i++ {
				run = append(run, int32(i))
			}
			posLists = append(posLists, run)
			holed := append(append([]int32(nil), run[:k/2]...), run[k/2+1:]...)
			posLists = append(posLists, holed)
		}
		for _, ps := range posLists {
			s := showI32s(ps)
			last := int32(-1)
			if len(ps) > 0 {
				last = ps[len(ps)-1]
			}
			g.emit("of %s none", s)
			if len(ps) > 5000 {
				g.emit("of %s %d", s, last+65)
				continue
			}
			for _, n := range []int32{-5, -1, 0, 1, last, last + 1, last + 2, last + 63, last + 64, last + 65, last + 200} {
				g.emit("of %s %d", s, n)
			}
		}
		// big bitmaps, odd and even word counts, a set bit in the last word
		for _, l := range []int{1023, 1024, 1025, 2049} {
			ws := make([]uint64, l)
			for i := range ws {
				if i%7 == 0 {
					ws[i] = g.word()
				}
			}
			ws[l-1] = 1<<63 | 1<<uint(g.intn(63))
			g.emit("toarray %s", showU64s(ws))
		}
		for rep := 0; rep < g.n(60, 400); rep++ {
			ws := g.words(g.intn(6), rep%2 == 0)
			s := showU64s(ws)
			g.emit("toarray %s", s)
			L := 64 * len(ws)
			for _, i := range g.boundaryPositions(L, 4) {
				g.emit("get %s %d", s, i)
				g.emit("get1 %s %d", s, i)
			}
			for _, i := range []int{-129, -65, -64, -63, -1, 0, 1, 63, 64, L - 1, L, L + 1, L + 63, L + 64, L + 1000, 2147483647, -2147483648} {
				g.emit("safeget %s %d", s, i)
				g.emit("safeget1 %s %d", s, i)
			}
		}
		// OfMany and Builder histories
		for rep := 0; rep < g.n(150, 1500); rep++ {
			nseg := g.intn(7)
			subs := make([][]int32, nseg)  // for the Builder: positions may reach beyond the segment size
			inDom := make([][]int32, nseg) // for OfMany: the shifted concatenation must stay ascending
			sizes := make([]int32, nseg)
			bops := []string{}
			for k := 0; k < nseg; k++ {
				size := int32([]int{0, 1, 5, 63, 64, 65, 100, 128, 130}[g.intn(9)])
				sizes[k] = size
				n := g.intn(5)
				p := int32(g.intn(int(size) + 3))
				subs[k], inDom[k] = []int32{}, []int32{}
				for j := 0; j < n; j++ {
					subs[k] = append(subs[k], p)
					if p < size || k == nseg-1 {
						inDom[k] = append(inDom[k], p)
					}
					p += int32(g.intn(40))
				}
				bops = append(bops, fmt.Sprintf("e:%s:%d", showI32s(subs[k]), size))
				if g.intn(4) == 0 {
					bops = append(bops, fmt.Sprintf("s:%d:%d", g.intn(500), g.intn(4)-1))
				}
			}
			g.emit("ofmany %s %s", showNested(inDom), showI32s(sizes))
			// positions beyond their segment are in the domain as long as the shifted concatenation stays ascending
			// (the theorem C12_ofMany_bits asks for nothing else): e.g. an overshooting segment followed by empty ones
			if asc, any := shiftedAscending(subs, sizes); asc && any {
				g.emit("ofmany %s %s", showNested(subs), showI32s(sizes))
			}
			if nseg > 0 && len(subs[nseg-1]) > 0 {
				tail := g.intn(3) + 1
				s2, z2 := append([][]int32{}, subs[:nseg-1]...), append([]int32{}, sizes...)
				last := append([]int32{}, inDom[nseg-1]...)
				last = append(last, last[len(last)-1]+1+int32(g.intn(200))) // overshoots whatever the size is
				s2 = append(s2, last)
				for t := 0; t < tail; t++ {
					s2 = append(s2, []int32{})
					z2 = append(z2, int32([]int{0, 1, 5, 64}[g.intn(4)]))
				}
				copy(s2, inDom[:nseg-1])
				if asc, _ := shiftedAscending(s2, z2); asc {
					g.emit("ofmany %s %s", showNested(s2), showI32s(z2))
				}
			}
			ops := "-"
			if len(bops) > 0 {
				ops = strings.Join(bops, ";")
			}
			g.emit("builder %d %s", []int{0, 64, 1000}[g.intn(3)], ops)
		}
		g.emit("ofmany 70;- 1,1")
		g.emit("ofmany 3,200;-;- 10,0,5")
		g.emit("ofmany -;64;- 0,64,0")
		g.emit("ofmany 0;63,64,127,128;-;- 1,1,0,1")
		g.emit("builder 0 s:0:1;s:63:1;s:64:0;s:64:1;s:5:3;s:700:2")
		g.emit("builder 0 e:64:64")
		g.emit("builder 0 e:-:64;e:64:64;e:-:0;e:127,128:128")
		g.emit("builder 64 e:64:64;e:-:64;e:-:1")
		// sizes beyond the driver's reach: the clauses are evaluated on the real code (thorough tier and whenever
		// the package's source changed)
		g.emit("builderprobe 1,5:100000;-:3000000;2,99:100")
		g.emit("ofmanyprobe 300 40 %d", g.intn(1000))
		g.emit("buildersetprobe 5,70000,64,1048576,1048575,63,16777216")
		if g.thorough() {
			g.emit("builderprobe 3:700000000;0,5:64;-:100000000;7:9")
			g.emit("builderprobe -:715827800;1:100;2:715827800")
			g.emit("builderprobe 0:1431655700;5:100")
			g.emit("ofmanyprobe 30000 40 %d", g.intn(1000))
			// positions around 2^30 and in the top word of the largest bitmap an int32 addresses
			g.emit("buildersetprobe 3,1073741823,1073741824,1073741888")
			g.emit("buildersetprobe 2147483582,7")
			g.emit("buildersetprobe 2147483646,2147483584,2147483583,0")
			g.emit("buildersetprobe 100,2147483600")
			g.emit("ofmanyprobe 2000 600 %d", g.intn(1000))
		}
	}

	gens["C15"] = func(g *G) {
		thrs := []int64{64, 128, 640, 65536}
		for rep := 0; rep < g.n(300, 3000); rep++ {
			o := int64(64 * g.intn(6))
			thr := thrs[g.intn(len(thrs))]
			shape := rep % 4
			nops := g.intn(g.n(120, 300))
			ops := []string{}
			hi := o // one past the highest index set so far
			span := int64(64 * (1 + g.intn(6)))
			next := o
			down := o + span - 1
			for k := 0; k < nops; k++ {
				var idx int64
				switch shape {
				case 0: // front to back
					idx = next
					next++
					if g.intn(10) == 0 {
						next += int64(g.intn(3))
					}
				case 1: // back to front
					idx = down
					down--
					if down < o-3 {
						down = o + span + int64(g.intn(128))
					}
				case 2: // random
					idx = o - 5 + int64(g.intn(int(span)+70))
				default: // mixed: mostly low words so that compaction happens
					if g.intn(3) == 0 {
						idx = o + int64(g.intn(int(span)))
					} else {
						idx = next
						next++
					}
				}
				switch g.intn(12) {
				case 0:
					ops = append(ops, "c")
				case 1:
					ops = append(ops, "o")
				case 2, 3:
					// probe below the end of everything set so far (always inside the stored words)
					if hi > 0 {
						j := int64(g.intn(int(hi) + 1))
						if j >= hi {
							j = hi - 1
						}
						if j < 0 {
							j = 0
						}
						if g.intn(2) == 0 {
							ops = append(ops, fmt.Sprintf("g%d", j))
						} else {
							ops = append(ops, fmt.Sprintf("h%d", j))
						}
					}
				default:
					if idx < 0 {
						idx = 0
					}
					ops = append(ops, fmt.Sprintf("s%d", idx))
					if idx+1 > hi {
						hi = idx + 1
					}
				}
			}
			ops = append(ops, "o")
			for k := 0; k < 6 && hi > 0; k++ {
				ops = append(ops, fmt.Sprintf("h%d", g.intn(int(hi))))
				ops = append(ops, fmt.Sprintf("g%d", g.intn(int(hi))))
			}
			ops = append(ops, "c", "o")
			g.emit("tb %d %d %s", o, thr, strings.Join(ops, ","))
		}
		// whole words filled (so that Offset really advances and the reclaim branch runs) while a long
		// live tail is stored: a far-ahead bit first, then the front words in some order
		for rep := 0; rep < g.n(120, 1200); rep++ {
			o := int64(64 * g.intn(4))
			thr := []int64{64, 128, 192, 640}[g.intn(4)]
			far := o + int64(64*(2+g.intn(40))) + int64(g.intn(64))
			ops := []string{fmt.Sprintf("s%d", far)}
			if g.intn(3) == 0 {
				ops = append(ops, fmt.Sprintf("s%d", far+int64(64*g.intn(30))+1))
			}
			nw := 1 + g.intn(6)
			order := g.r.Perm(nw)
			if g.intn(2) == 0 {
				sort.Ints(order)
			}
			for _, w := range order {
				a := o + int64(64*w)
				if g.intn(2) == 0 {
					ops = append(ops, fmt.Sprintf("f%d:%d", a, a+64))
				} else {
					ops = append(ops, fmt.Sprintf("F%d:%d", a, a+64))
				}
				if g.intn(3) == 0 {
					ops = append(ops, "o", fmt.Sprintf("h%d", far), fmt.Sprintf("g%d", far), fmt.Sprintf("h%d", o+int64(g.intn(64*nw))))
				}
				if g.intn(4) == 0 {
					ops = append(ops, "c")
				}
			}
			ops = append(ops, "o", fmt.Sprintf("h%d", far), fmt.Sprintf("g%d", far), fmt.Sprintf("h%d", far-1), fmt.Sprintf("g%d", o), "c", "o", fmt.Sprintf("h%d", far))
			g.emit("tb %d %d %s", o, thr, strings.Join(ops, ","))
		}
		// large offsets (int64 positions)
		for _, o := range []int64{1 << 32, 1 << 40, 1<<62 - 64} {
			g.emit("tb %d 128 s%d,F%d:%d,o,h%d,g%d,h%d,h%d,s%d,o,c,o,h%d", o, o+700, o, o+128, o+700, o+700, o-1, o+127, o+128, o+699)
		}
		// the real reclaim threshold (1024 words) crossed front-to-back and back-to-front
		g.emit("tb 0 65536 f0:65600,o,h5,h65599,s65700,o,h65600,h65700,c,o")
		g.emit("tb 64 65536 F64:4096,o,h64,h4095,g100,c,o")
		// ... and crossed while more than 1024 words are still live
		g.emit("tb 0 65536 s134417,s140000,f0:65536,o,h134417,g134417,h140000,h65536,f65536:65600,o,h134417,c,o,h140000")
		g.emit("tbprobe backfill 300")
		g.emit("tbprobe backfill 1100000")
		g.emit("tbprobe farbit 5000")
		g.emit("tbprobe farbit 6000")
		// a stored tail longer than 2^31 bits (a far bit beyond Offset + 2^31): 256 MiB, about five seconds
		g.emit("tbprobe farbit 33554500")
		if g.thorough() {
			g.emit("tbprobe backfill 5000")
			g.emit("tbprobe backfill 66000")
			g.emit("tbprobe farbit 300000")
			// more than 2^20 complete words behind an incomplete word 0 (70 million Sets), a stored tail longer than
			// 2^31 bits (a far bit beyond Offset + 2^31), more than 2^25 complete words dropped by one compaction
			g.emit("tbprobe backfill 33554500")
			// more than 4096 complete words behind word 0, then word 0 is completed: one Set must move Offset
			// past all of them
			g.emit("tb 0 65536 F64:262784,o,h64,h262783,f0:63,o,s63,o,h262783,c,o,s262784,o")
			g.emit("tb 0 65536 F0:65664,o,h0,h65663,c,o,f65664:131300,o,c,o")
			g.emit("tb 128 65536 s200000,F128:65664,o,h200000,g199999,f65664:131200,o,h200000,c,o")
		}
	}
}

// shiftedAscending: is the concatenation of the segments, each shifted by the sum of the preceding sizes, strictly
// ascending (what bitmap.Of supports)?  any: does some position reach beyond its segment?
func shiftedAscending(subs [][]int32, sizes []int32) (asc bool, any bool) {
	base, prev := int64(0), int64(-1)
	for k, sub := range subs {
		for _, p := range sub {
			q := base + int64(p)
			if q <= prev || q >= 1<<30 {
				return false, any
			}
			prev = q
			if p >= sizes[k] {
				any = true
			}
		}
		base += int64(sizes[k])
	}
	return true, any
}
