package main

import (
	"bytes"
	"encoding/binary"
	"fmt"
	"os"
	"strings"

	"github.com/golang/protobuf/proto"
	"github.com/openacid/low/pbcmpl"
)

// version strings of every length 0..16, with interior NULs, never ending in NUL
var realisticVersions = []string{"1.0.0", "v1.2.3", "V1.2.3", "v0.1.6-rc1+b5", "0.1.6-rc1+b5", "1.2", "v1", "v", "01.2.3",
	"1.2.3 ", " 1.2.3", "1.2.3-", "v1.2.3+meta", "latest", "1.0.0-alpha.1", "=1.2.3", ">=1.0.0", "1.2.3\n", "\xff\xfe", "v10.20.30"}

func (g *G) version(l int) []byte {
	if g.intn(4) == 0 {
		for k := 0; k < 30; k++ {
			if v := realisticVersions[g.intn(len(realisticVersions))]; len(v) == l {
				return []byte(v)
			}
		}
	}
	v := make([]byte, l)
	for i := range v {
		switch g.intn(4) {
		case 0:
			v[i] = 0
		case 1:
			v[i] = '.'
		default:
			v[i] = byte('0' + g.intn(10))
		}
	}
	if l > 0 && v[l-1] == 0 {
		v[l-1] = '9'
	}
	return v
}

func verTok(v []byte, has bool) string {
	if !has {
		return "none"
	}
	return showBytes(v)
}

func encodingOf(kind string, ver *string, payload []byte) []byte {
	enc, err := proto.Marshal(mkMsg(kind, ver, payload))
	if err != nil {
		panic("harness: cannot marshal generated message")
	}
	return enc
}

type genFrame struct {
	hasVer bool
	ver    []byte
	body   []byte
}

func (f genFrame) tok() string { return verTok(f.ver, f.hasVer) + ":" + compactBytes(f.body) }

// bigFrames: frames of a megabyte and more; a read that fails inside such a body, then complete frames
func (g *G) bigFrames() {
	mk := func(n int, fill byte) genFrame {
		b := bytes.Repeat([]byte{fill}, n)
		copy(b, g.bytes(5, 3))
		copy(b[n-3:], g.bytes(3, 3))
		return genFrame{hasVer: true, ver: []byte("3.1"), body: b}
	}
	f1, f2, f3 := mk(1<<20+100, 0xaa), mk(1<<20+7, 0xbb), mk(1<<20, 0xcc)
	st1 := streamOf([]genFrame{f1})
	g.emit("pbs %s %d eof 0 %s", f1.tok(), 32+600000, compactBytes(st1[:32+600000]))
	st2 := streamOf([]genFrame{f2})
	g.emit("pbs %s -1 eof 2 %s", f2.tok(), compactBytes(st2))
	small := genFrame{hasVer: false, body: []byte{1, 2, 3}}
	all := []genFrame{f3, small, f1}
	g.emit("pbs %s -1 eof 0 %s", framesTok(all), compactBytes(streamOf(all)))
	st3 := streamOf(all)
	g.emit("pbs %s %d inj 0 %s", framesTok(all), len(st3)-500, compactBytes(st3[:len(st3)-500]))
	g.emit("pbs %s -1 eof 3 %s", f3.tok(), compactBytes(streamOf([]genFrame{f3})))
	bigChunks := []int{7, 10}
	if g.thorough() {
		bigChunks = []int{7, 9, 10, 11, 13, 15}
	}
	for _, chunk := range bigChunks {
		g.emit("pbs %s -1 eof %d %s", framesTok(all), chunk, compactBytes(streamOf(all)))
	}
	// a forged body size followed by more than a megabyte of real data
	forged := []uint64{1 << 50, 1<<63 - 1}
	if g.thorough() {
		forged = []uint64{1 << 50, 1 << 62, 1<<63 - 1, 1<<21 + 5, 1 << 32}
	}
	for _, bs := range forged {
		hdr := make([]byte, 32)
		copy(hdr, "1.0.0")
		hdr[16] = 32
		for i := 0; i < 8; i++ {
			hdr[24+i] = byte(bs >> uint(8*i))
		}
		tail := bytes.Repeat([]byte{0x5a}, 1<<20+4097)
		g.emit("pbraw %s eof %d 2", compactBytes(append(hdr, tail...)), []int{0, 5, 6, 9}[g.intn(4)])
	}
	// every realistic version string, with and without a following frame
	for _, v := range realisticVersions {
		f := genFrame{hasVer: true, ver: []byte(v), body: g.bytes(3, 3)}
		g.emit("pbs %s -1 eof %d %s", framesTok([]genFrame{f, small}), g.intn(17), compactBytes(streamOf([]genFrame{f, small})))
	}
	if !g.thorough() || os.Getenv("LOWHARNESS_EXTRA_SEED") == "1" {
		// (the thorough tier generates from several seeds: the multi-megabyte frames only from the first)
		return
	}
	// bodies beyond 2 MiB and 4 MiB: followed by another frame, read in medium-sized chunks; cut inside the body
	for _, n := range []int{2<<20 + 11, 4<<20 + 70000, 5 << 20} {
		big := mk(n, byte(0x30+n%7))
		two := []genFrame{big, small, mk(1<<20+3, 0x77)}
		st := streamOf(two)
		for _, chunk := range []int{0, 4, 5, 6} {
			g.emit("pbs %s -1 eof %d %s", framesTok(two), chunk, compactBytes(st))
		}
		for _, cut := range []int{32 + n/2, 32 + n - 1, 32 + 4<<20, 32 + 4<<20 + 1, 32 + n - 70000} {
			if cut > 32 && cut < 32+n {
				g.emit("pbs %s %d eof %d %s", framesTok(two), cut, []int{0, 4, 5}[g.intn(3)], compactBytes(st[:cut]))
				g.emit("pbs %s %d inj 5 %s", framesTok(two), cut, compactBytes(st[:cut]))
			}
		}
	}
}

// stream marshals the frames with the real Marshal (raw messages: encoding = body)
func streamOf(frames []genFrame) []byte {
	var buf bytes.Buffer
	for _, f := range frames {
		var ver *string
		if f.hasVer {
			s := string(f.ver)
			ver = &s
		}
		if _, err := pbcmpl.Marshal(&buf, mkMsg("raw", ver, f.body)); err != nil {
			panic("harness: Marshal failed while generating a stream")
		}
	}
	return buf.Bytes()
}

func framesTok(frames []genFrame) string {
	ss := make([]string, len(frames))
	for i, f := range frames {
		ss[i] = f.tok()
	}
	return strings.Join(ss, ";")
}

func (g *G) frame(bodyLens []int) genFrame {
	f := genFrame{hasVer: g.intn(4) != 0, body: g.bytes(bodyLens[g.intn(len(bodyLens))], 3)}
	if f.hasVer {
		f.ver = g.version(g.intn(17))
	}
	return f
}

func init() {
	gens["C06"] = func(g *G) {
		bodyLens := []int{0, 1, 2, 31, 32, 33, 127, 128, 1000}
		if g.thorough() {
			bodyLens = append(bodyLens, 5000, 70000)
		}
		// Marshal: bytes on the wire and the size figures; every version length
		for vl := 0; vl <= 16; vl++ {
			for rep := 0; rep < g.n(6, 30); rep++ {
				kind := []string{"raw", "raw", "bv", "sv", "iv"}[g.intn(5)]
				payload := g.bytes(bodyLens[g.intn(len(bodyLens))], 3)
				if kind == "iv" && len(payload) > 8 {
					payload = payload[:8]
				}
				if kind == "sv" {
					payload = g.bytes(len(payload), 1) // proto3 strings must be valid UTF-8
				}
				hasVer := (kind == "raw" || kind == "bv") && g.intn(5) != 0
				v := g.version(vl)
				var ver *string
				if hasVer {
					s := string(v)
					ver = &s
				}
				body := encodingOf(kind, ver, payload)
				g.emit("pbmk %s %s %s %s -1 0", kind, verTok(v, hasVer), showBytes(payload), showBytes(body))
				g.emit("pbrt %s %s %s", kind, verTok(v, hasVer), showBytes(payload))
			}
		}
		// streams of 1..5 frames under every chunking
		for rep := 0; rep < g.n(300, 3000); rep++ {
			nf := 1 + g.intn(5)
			frames := make([]genFrame, nf)
			for i := range frames {
				frames[i] = g.frame(bodyLens)
			}
			st := streamOf(frames)
			g.emit("pbs %s -1 eof %d %s", framesTok(frames), g.intn(17), compactBytes(st))
			if len(st) >= 32 {
				g.emit("pbh %s eof", showBytes(st[:32+g.intn(len(st)-31)]))
			}
		}
		g.emit("pbs - -1 eof 0 x")
		g.bigFrames()
	}

	gens["C07"] = func(g *G) {
		bodyLens := []int{0, 1, 2, 5, 31, 32, 33, 100}
		// every cut point of every generated frame (possibly after complete frames)
		for rep := 0; rep < g.n(40, 300); rep++ {
			nf := 1 + g.intn(3)
			frames := make([]genFrame, nf)
			for i := range frames {
				frames[i] = g.frame(bodyLens)
			}
			st := streamOf(frames)
			ft := framesTok(frames)
			for cut := 0; cut < len(st); cut++ {
				if len(st) > 150 && cut > 40 && cut < len(st)-8 && g.intn(6) != 0 {
					continue
				}
				end := "eof"
				if g.intn(5) == 0 {
					end = "inj" // read error injected at this offset
				}
				g.emit("pbs %s %d %s %d %s", ft, cut, end, g.intn(17), compactBytes(st[:cut]))
			}
		}
		if g.thorough() {
			f := genFrame{hasVer: true, ver: []byte("2.0"), body: g.bytes(70000, 3)}
			st := streamOf([]genFrame{f})
			for _, cut := range []int{0, 1, 31, 32, 33, 34, 4095, 4096, 4097, 65535, 65536, len(st) - 2, len(st) - 1} {
				g.emit("pbs %s %d eof %d %s", f.tok(), cut, g.intn(4), compactBytes(st[:cut]))
			}
		}
		g.bigFrames()
		// writer failing at every k: partial acceptance and all-or-nothing
		for rep := 0; rep < g.n(30, 300); rep++ {
			kind := []string{"raw", "bv"}[g.intn(2)]
			payload := g.bytes([]int{0, 1, 5, 40}[g.intn(4)], 3)
			hasVer := g.intn(2) == 0
			v := g.version(g.intn(17))
			var ver *string
			if hasVer {
				s := string(v)
				ver = &s
			}
			body := encodingOf(kind, ver, payload)
			for k := 0; k < 32+len(body); k++ {
				g.emit("pbmk %s %s %s %s %d %d", kind, verTok(v, hasVer), showBytes(payload), showBytes(body), k, []int{0, 1, 3}[g.intn(3)])
			}
			// a writer that takes a write in full and still reports an error (on the header, on the body)
			for _, k := range []int{1, 31, 32, 33, 32 + len(body), 32 + len(body) + 1} {
				g.emit("pbmk %s %s %s %s %d 2", kind, verTok(v, hasVer), showBytes(payload), showBytes(body), k)
			}
		}
		// arbitrary / corrupted headers: header-size and body-size fields set to any uint64
		sizes := []uint64{0, 1, 31, 32, 33, 64, 1 << 31, 1 << 32, 1 << 33, 1 << 40, 1 << 48, 1 << 62, 1<<63 - 1, 1 << 63, 1<<63 + 1, ^uint64(0), ^uint64(0) - 31,
			// values that agree with a legal one in their low 8 / 16 / 32 bits
			32 + 1<<8, 32 + 1<<16, 32 + 1<<32, 32 + 1<<40, 32 + 1<<56, 32 + 1<<63}
		for rep := 0; rep < g.n(600, 6000); rep++ {
			tail := g.bytes(g.intn(80), 3)
			hdr := make([]byte, 32)
			copy(hdr, g.version(g.intn(17)))
			if g.intn(4) == 0 {
				copy(hdr, g.bytes(16, 3)) // version bytes arbitrary, may end in NUL
			}
			hs, bs := uint64(32), uint64(len(tail))
			switch g.intn(6) {
			case 0:
				hs = sizes[g.intn(len(sizes))]
			case 1:
				bs = sizes[g.intn(len(sizes))]
			case 2:
				hs, bs = sizes[g.intn(len(sizes))], sizes[g.intn(len(sizes))]
			case 3:
				bs = uint64(len(tail) + g.intn(5) - 2)
			case 4:
				bs = uint64(g.intn(len(tail) + 1))
			}
			if g.intn(8) == 0 {
				// a body size that is right only in its low bits
				bs = uint64(len(tail)) + uint64(1)<<uint([]int{8, 16, 32, 40, 56}[g.intn(5)])
			}
			binary.LittleEndian.PutUint64(hdr[16:], hs)
			binary.LittleEndian.PutUint64(hdr[24:], bs)
			all := append(hdr, tail...)
			if g.intn(5) == 0 {
				all = all[:g.intn(len(all)+1)]
			}
			end := []string{"eof", "eof", "inj"}[g.intn(3)]
			g.emit("pbraw %s %s %d %d", showBytes(all), end, g.intn(4), 1+g.intn(3))
			g.emit("pbh %s %s", showBytes(all), end)
		}
		for rep := 0; rep < g.n(100, 1000); rep++ {
			g.emit("pbraw %s eof %d 3", showBytes(g.bytes(g.intn(120), 3*(rep%2))), g.intn(4))
		}
		// the body-size boundary cases named in the property
		for _, bs := range []uint64{1 << 62, 1<<63 - 1, 1 << 63, ^uint64(0), 1 << 33, 1 << 40, 1 << 48} {
			hdr := make([]byte, 32)
			copy(hdr, "1.0.0")
			binary.LittleEndian.PutUint64(hdr[16:], 32)
			binary.LittleEndian.PutUint64(hdr[24:], bs)
			g.emit("pbraw %s eof 0 2", showBytes(append(hdr, 1, 2, 3)))
			g.emit("pbraw %s eof 1 2", showBytes(hdr))
		}
	}

	gens["C20"] = func(g *G) {
		for name := range namedValues {
			_ = name
		}
		names := []string{"nil", "uint", "uintptr", "struct-uint", "named-u", "int", "bool", "string", "empty-str", "nil-slice",
			"empty-slice", "slice3", "array3", "nil-ptr", "ptr", "nil-map", "map", "iface-field", "nested", "complex",
			"big-structs-4095", "big-structs-4096", "big-structs-9000", "big-array", "big-strings", "big-bytes",
			"alias-slice", "alias-fields", "alias-map", "embedded", "embedded-deep", "embedded-slice",
			"same-address-1", "same-address-2", "same-address-3", "same-name-a", "same-name-b", "same-name-a", "linked-list-100",
			"linked-list-6000", "float-key-map", "nan-key-f64", "nan-key-f32-str", "nan-keys-many", "nan-key-iface", "nan-key-struct",
			"nan-key-array", "nan-key-complex", "nan-key-nested"}
		for _, n := range names {
			g.emit("sizeofnamed %s", n)
		}
		for rep := 0; rep < g.n(3000, 40000); rep++ {
			g.emit("sizeofgen %d %d", g.r.Int63n(1<<40), 1+g.intn(4))
		}
	}
}

var _ = fmt.Sprintf
