package main

import (
	"bytes"
	"fmt"
	"sort"
	"strings"
)

// sortedKeys makes a strictly ascending key set aimed at the 8-byte chunking of sFirstDiffBit
func (g *G) sortedKeys(n int, mode int) [][]byte {
	set := map[string]bool{}
	prefixLens := []int{0, 0, 1, 7, 8, 9, 15, 16, 17}
	var base []byte
	for len(set) < n {
		var k []byte
		switch g.intn(6) {
		case 0: // predecessor + NULs / extension of an existing key
			if base != nil {
				k = append(append([]byte(nil), base...), make([]byte, 1+g.intn(2))...)
				if g.intn(2) == 0 {
					k[len(k)-1] = byte(1 + g.intn(255))
				}
			}
		case 1: // deep shared prefix
			if base != nil {
				pl := prefixLens[g.intn(len(prefixLens))]
				if pl > len(base) {
					pl = len(base)
				}
				k = append(append([]byte(nil), base[:pl]...), g.bytes(g.intn(4), mode)...)
			}
		case 2:
			k = []byte{}
		}
		if k == nil {
			k = g.bytes(g.intn([]int{3, 10, 20}[g.intn(3)]), mode)
		}
		set[string(k)] = true
		base = k
		if len(set) >= n || g.intn(50) == 0 {
			break
		}
	}
	keys := make([][]byte, 0, len(set))
	for k := range set {
		keys = append(keys, []byte(k))
	}
	sort.Slice(keys, func(i, j int) bool { return bytes.Compare(keys[i], keys[j]) < 0 })
	return keys
}

// allKeySets enumerates all strictly ascending key sets of <= maxKeys keys over alpha with length <= maxLen
func allKeySets(alpha []byte, maxLen, maxKeys int, f func([][]byte)) {
	universe := [][]byte{{}}
	for l, lo := 1, 0; l <= maxLen; l++ {
		hi := len(universe)
		for _, p := range universe[lo:hi] {
			for _, c := range alpha {
				universe = append(universe, append(append([]byte(nil), p...), c))
			}
		}
		lo = hi
	}
	sort.Slice(universe, func(i, j int) bool { return bytes.Compare(universe[i], universe[j]) < 0 })
	var rec func(start int, cur [][]byte)
	rec = func(start int, cur [][]byte) {
		if len(cur) > 0 {
			f(cur)
		}
		if len(cur) == maxKeys {
			return
		}
		for i := start; i < len(universe); i++ {
			rec(i+1, append(append([][]byte(nil), cur...), universe[i]))
		}
	}
	rec(0, nil)
}

func init() {
	gens["C08"] = func(g *G) {
		widths := []int{1, 2, 4, 8}
		strs := [][]byte{{}}
		for b := 0; b < 256; b++ {
			strs = append(strs, []byte{byte(b)})
		}
		for l := 2; l <= 12; l++ {
			for rep := 0; rep < g.n(2, 8); rep++ {
				strs = append(strs, g.bytes(l, 3*(rep%2)))
			}
		}
		for _, n := range widths {
			for _, s := range strs {
				hs := showBytes(s)
				g.emit("bwfromstr %d %s", n, hs)
				g.emit("bwrt %d %s", n, hs)
				nw := 8 * len(s) / n
				for i := 0; i < nw; i++ {
					if nw > 16 && g.intn(3) != 0 {
						continue
					}
					g.emit("bwget %d %s %d", n, hs, i)
				}
			}
			// ToStr on in-range word lists of every length mod 8/n
			for l := 0; l <= 2*8/n+3; l++ {
				for rep := 0; rep < g.n(3, 10); rep++ {
					ws := make([]uint64, l)
					for i := range ws {
						ws[i] = uint64(g.intn(1 << uint(n)))
						if rep == 0 {
							ws[i] = 1<<uint(n) - 1
						}
					}
					g.emit("bwtostr %d %s", n, showU64s(ws))
				}
			}
			// FirstDiff windows
			for rep := 0; rep < g.n(150, 1500); rep++ {
				a := g.bytes(g.intn(7), 3*(rep%2))
				b := append([]byte(nil), a...)
				switch g.intn(4) {
				case 0: // differ in one chosen word
					if len(b) > 0 {
						i := g.intn(len(b))
						b[i] ^= 1 << uint(g.intn(8))
					}
				case 1: // differ in length only
					b = append(b, g.bytes(g.intn(3), 0)...)
				case 2:
					if len(b) > 0 {
						b = b[:g.intn(len(b))]
					}
				default:
					b = g.bytes(g.intn(7), 3*(rep%2))
				}
				wa, wb := 8*len(a)/n, 8*len(b)/n
				for k := 0; k < 4; k++ {
					from := g.intn(wa + 3)
					end := []int{-1, 0, from, from + 1, wa, wb, wa + 2, wb + 2, g.intn(wa + wb + 2)}[g.intn(9)]
					g.emit("bwfirstdiff %d %s %s %d %d", n, showBytes(a), showBytes(b), from, end)
				}
			}
			// long strings with several differences, windows starting between them (block-wise fast paths)
			for rep := 0; rep < g.n(12, 80); rep++ {
				l := []int{130, 200, 300, 520, 1100}[g.intn(5)]
				a := g.bytes(l, 3)
				b := append([]byte(nil), a...)
				nd := 1 + g.intn(3)
				for k := 0; k < nd; k++ {
					b[g.intn(l)] ^= 1 << uint(g.intn(8))
				}
				per := 8 / n
				for k := 0; k < 4; k++ {
					from := g.intn(l * per)
					end := []int{-1, l * per, from + g.intn(l*per-from+1)}[g.intn(3)]
					g.emit("bwfirstdiff %d %s %s %d %d", n, showBytes(a), showBytes(b), from, end)
				}
			}
			// `end` far beyond either string, at and around every power of two up to the largest int (a window bound is
			// compared, never multiplied, by the property: lim = min(end, words(a), words(b)))
			for rep := 0; rep < 2; rep++ {
				a := g.bytes(3+g.intn(12), 3)
				b := append([]byte(nil), a...)
				if rep == 1 {
					b[len(b)-1] ^= 4
				}
				for k := 8; k <= 63; k++ {
					for _, d := range []int64{-1, 0, 1, 2, 3, 5, 8, int64(g.intn(64))} {
						end := int64(1)<<uint(k) + d
						if k == 63 {
							end = int64(^uint64(0)>>1) - (d + 1)
						}
						g.emit("bwfirstdiff %d %s %s %d %d", n, showBytes(a), showBytes(b), g.intn(3), end)
					}
				}
			}
			// ToStr: output lengths on and around multiples of 1024 bytes, incomplete last byte
			for _, nb := range []int{1023, 1024, 1025, 2048} {
				per := 8 / n
				for _, d := range []int{-1, 0, 1, -(per - 1)} {
					cnt := nb*per + d
					if cnt <= 0 {
						continue
					}
					ws := make([]uint64, cnt)
					for i := range ws {
						ws[i] = uint64(g.intn(1 << uint(n)))
					}
					g.emit("bwtostr %d %s", n, showU64s(ws))
				}
			}
			for _, l := range []int{255, 256, 257, 1000} {
				a := g.bytes(l, 3)
				b := append([]byte(nil), a...)
				b[l-1] ^= 1
				g.emit("bwfromstr %d %s", n, showBytes(a))
				g.emit("bwrt %d %s", n, showBytes(a))
				g.emit("bwget %d %s %d", n, showBytes(a), 8*l/n-1)
				g.emit("bwfirstdiff %d %s %s 0 -1", n, showBytes(a), showBytes(b))
				g.emit("bwfirstdiff %d %s %s %d %d", n, showBytes(a), showBytes(b), 8*l/n-2, 8*l/n+5)
			}
			for rep := 0; rep < g.n(10, 60); rep++ {
				k := g.intn(4)
				l := make([][]byte, k)
				for i := range l {
					l[i] = g.bytes(g.intn(4), 3)
				}
				g.emit("bwstrs %d %s", n, showBytesList(l))
			}
		}
	}

	gens["C09"] = func(g *G) {
		mk := func(maxLen int) ([]byte, int, int) {
			s := g.bytes(1+g.intn(maxLen), []int{0, 0, 3}[g.intn(3)])
			to := g.intn(8*len(s) + 1)
			from := g.intn(to + 1)
			switch g.intn(6) {
			case 0:
				from = to // empty range, aligned or not
			case 1:
				to = 8 * len(s)
			case 2:
				from = 0
			}
			return s, from, to
		}
		for rep := 0; rep < g.n(2500, 30000); rep++ {
			s, f, t := mk([]int{2, 4, 10, 18}[g.intn(4)])
			g.emit("bsnew %s %d %d", showBytes(s), f, t)
			// second operand: related to the first so that long common prefixes occur
			var s2 []byte
			var f2, t2 int
			switch g.intn(4) {
			case 0:
				s2, f2, t2 = mk(10)
			case 1: // same string, different end
				s2 = s
				f2 = f
				t2 = f + g.intn(8*len(s)-f+1)
			case 2: // same bits up to a point, one bit flipped near the end
				s2 = append([]byte(nil), s...)
				if t > 8*(f/8) {
					bitpos := 8*(f/8) + g.intn(t-8*(f/8))
					s2[bitpos/8] ^= 0x80 >> uint(bitpos%8)
				}
				f2, t2 = f, t
			default: // extended string
				s2 = append(append([]byte(nil), s...), g.bytes(g.intn(3), 0)...)
				f2 = f
				t2 = t + g.intn(8*len(s2)-t+1)
			}
			g.emit("bscmp %s %d %d %s %d %d", showBytes(s), f, t, showBytes(s2), f2, t2)
			// plain byte strings shorter / equal / longer than the payload, across the 8-byte switch
			pay := s[f/8:]
			var a []byte
			switch g.intn(5) {
			case 0:
				a = g.bytes(g.intn(12), 0)
			case 1:
				a = append([]byte(nil), pay...)
			case 2:
				a = append([]byte(nil), pay[:g.intn(len(pay)+1)]...)
			case 3:
				a = append(append([]byte(nil), pay...), g.bytes(1+g.intn(2), 0)...)
			default:
				a = append([]byte(nil), pay...)
				if len(a) > 0 {
					a[g.intn(len(a))] ^= 1 << uint(g.intn(8))
				}
			}
			g.emit("bscmpupto %s %s %d %d", showBytes(a), showBytes(s), f, t)
		}
		// lengths 6,7,8,9 around cmpBytes' fast-path switch, every alignment of `to`
		for _, l := range []int{6, 7, 8, 9, 10} {
			for to := 8*l - 16; to <= 8*l; to++ {
				s := g.bytes(l, 0)
				for _, al := range []int{l - 2, l - 1, l, l + 1} {
					a := append([]byte(nil), s...)
					if al <= len(a) {
						a = a[:al]
					} else {
						a = append(a, 0x55)
					}
					g.emit("bscmpupto %s %s 0 %d", showBytes(a), showBytes(s), to)
					if len(a) > 0 {
						a[len(a)-1] ^= 0x10
						g.emit("bscmpupto %s %s 0 %d", showBytes(a), showBytes(s), to)
					}
				}
			}
		}
		// payload byte lengths swept across 64 / 128 / 256: keys equal to the payload, longer, differing only in
		// bits that the range masks away, differing in the last kept bit
		for pl := 58; pl <= 262; pl++ {
			if pl > 140 && pl < 250 {
				continue
			}
			if !g.thorough() && pl%3 != 0 && !(pl >= 63 && pl <= 73) && !(pl >= 127 && pl <= 137) && !(pl >= 255 && pl <= 259) {
				continue
			}
			s := g.bytes(pl, 3)
			for _, sub := range []int{0, 1, 5, 7} {
				to := 8*pl - sub
				if to <= 0 {
					continue
				}
				hs := showBytes(s)
				eq := append([]byte(nil), s...)
				longer := append(append([]byte(nil), s...), g.bytes(1+g.intn(3), 3)...)
				masked := append([]byte(nil), s...)
				if sub > 0 {
					masked[pl-1] ^= 1 << uint(g.intn(sub)) // a bit beyond `to`
				}
				lastbit := append([]byte(nil), s...)
				lastbit[pl-1] ^= 1 << uint(sub) // the last kept bit
				shorter := append([]byte(nil), s[:pl-1]...)
				for _, a := range [][]byte{eq, longer, masked, lastbit, shorter} {
					g.emit("bscmpupto %s %s 0 %d", showBytes(a), hs, to)
				}
				g.emit("bscmp %s 0 %d %s 0 %d", hs, to, showBytes(longer), 8*len(longer))
				g.emit("bscmp %s 0 %d %s 0 %d", showBytes(lastbit), to, hs, to)
			}
		}
		for _, l := range []int{255, 256, 257, 1000} {
			s := g.bytes(l, 3)
			s2 := append([]byte(nil), s...)
			s2[l-1] ^= 0x04
			for _, to := range []int{8 * l, 8*l - 3, 8*l - 8, 2048, 2047} {
				if to > 8*l {
					continue
				}
				g.emit("bsnew %s 0 %d", showBytes(s), to)
				g.emit("bscmp %s 0 %d %s 8 %d", showBytes(s), to, showBytes(s2), to)
				g.emit("bscmp %s 0 %d %s 0 %d", showBytes(s), to, showBytes(s2), 8*l)
				g.emit("bscmpupto %s %s 0 %d", showBytes(s2), showBytes(s), to)
				g.emit("bscmpupto %s %s 16 %d", showBytes(s2[2:]), showBytes(s), to)
			}
		}
		g.emit("bsnew x616263 5 12")
		g.emit("bsnew x 0 0")
		g.emit("bscmp x 0 0 x00 0 0")
		g.emit("bscmpupto x6162 x 0 0")
		// the plain bytes are a prefix of the encoded bytes (the executor then also passes them as a view of b's memory)
		for rep := 0; rep < g.n(60, 400); rep++ {
			l := 2 + g.intn(40)
			s := g.bytes(l, 3*(rep%2))
			to := 8*l - []int{0, 3, 8, 13}[g.intn(4)]
			if to < 0 {
				to = 0
			}
			for _, k := range []int{1, l / 2, l - 2, l - 1, to / 8} {
				if k >= 0 && k <= to/8 {
					g.emit("bscmpupto %s %s 0 %d", showBytes(s[:k]), showBytes(s), to)
				}
			}
		}
	}

	gens["C16"] = func(g *G) {
		// key sets of several hundred thousand keys (a chunked or parallel FirstDiffBits must not lose the pair that
		// straddles two chunks): evaluated on the real code against a per-pair reference
		for _, n := range []int{70001, 300007, 1<<20 + 7} {
			g.emit("fdbprobe %d %d", n, g.intn(1000))
		}
		if g.thorough() {
			g.emit("fdbprobe %d %d", 1<<22+3, g.intn(1000))
		}
		emitSet := func(keys [][]byte, allRanges bool) {
			if len(keys) == 0 {
				return
			}
			ks := showBytesList(keys)
			g.emit("fdb %s", ks)
			for s := 0; s < len(keys); s++ {
				for e := s + 2; e <= len(keys); e++ {
					if !allRanges && g.intn(4) != 0 {
						continue
					}
					for _, m := range []int{1, 2, 7, 8, 9, 40} {
						if !allRanges && g.intn(2) != 0 {
							continue
						}
						g.emit("countprefixes %s %d %d %d", ks, s, e, m)
					}
				}
			}
		}
		for rep := 0; rep < g.n(120, 1200); rep++ {
			keys := g.sortedKeys(1+g.intn(8), rep%4)
			emitSet(keys, len(keys) <= 5)
		}
		// non-sorted / duplicate keys for FirstDiffBits alone (it is specified for every non-empty list)
		for rep := 0; rep < g.n(100, 1000); rep++ {
			n := 1 + g.intn(5)
			keys := make([][]byte, n)
			for i := range keys {
				if i > 0 && g.intn(3) == 0 {
					keys[i] = append(append([]byte(nil), keys[i-1]...), g.bytes(g.intn(2), 2)...)
					if g.intn(3) == 0 && len(keys[i]) > 0 {
						keys[i][g.intn(len(keys[i]))] ^= 1 << uint(g.intn(8))
					}
				} else {
					keys[i] = g.bytes(g.intn([]int{4, 12, 20}[g.intn(3)]), 2*(rep%2))
				}
			}
			g.emit("fdb %s", showBytesList(keys))
		}
		// many keys, long keys (the naive distinct-count specification is not evaluated beyond 60 keys)
		for rep := 0; rep < g.n(2, 10); rep++ {
			keys := g.sortedKeys(150+g.intn(200), rep%4)
			long := append(bytes.Repeat([]byte{0xab}, 300), g.bytes(3, 3)...)
			keys = append(keys, long, append(append([]byte(nil), long...), 0), append(append([]byte(nil), long...), 0, 1))
			sort.Slice(keys, func(i, j int) bool { return bytes.Compare(keys[i], keys[j]) < 0 })
			uniq := keys[:1]
			for _, k := range keys[1:] {
				if !bytes.Equal(k, uniq[len(uniq)-1]) {
					uniq = append(uniq, k)
				}
			}
			ks := showBytesList(uniq)
			g.emit("fdb %s", ks)
			g.emit("countprefixes %s 0 %d 40", ks, len(uniq))
			g.emit("countprefixes %s %d %d 9", ks, len(uniq)/3, len(uniq)-1)
		}
		// shared prefixes of every byte length 0..300 and around 512 (chunked / block-wise comparison loops):
		// the pair differs in one bit right after the shared prefix
		for base := 0; base <= 540; base += 20 {
			if base > 300 && base < 500 {
				continue
			}
			keys := [][]byte{}
			for L := base; L < base+20; L++ {
				pfx := bytes.Repeat([]byte{byte(0x40 + L%50)}, L)
				bit := byte(0x80 >> uint(g.intn(8)))
				a := append(append([]byte(nil), pfx...), g.bytes(1, 3)[0]&^bit)
				b := append(append([]byte(nil), pfx...), a[L]|bit)
				tail := []int{0, 5, 17, 40}[g.intn(4)]
				a = append(a, g.bytes(tail+g.intn(8), 3)...)
				b = append(b, g.bytes(tail+g.intn(8), 3)...)
				keys = append(keys, a, b)
			}
			g.emit("fdb %s", showBytesList(keys))
		}
		// every key of a range shares a prefix of several thousand bytes: all first-difference positions lie beyond
		// 2^15, 2^16 (a narrowed counter, a small "infinity" as the start of a minimum search)
		for _, L := range []int{4100 + g.intn(50), 8200 + g.intn(50), 12300 + g.intn(50)} {
			pfx := g.bytes(L, 3)
			for len(pfx) < L {
				pfx = append(pfx, byte(0x31+len(pfx)%7))
			}
			pfx = pfx[:L]
			keys := [][]byte{}
			for _, tail := range [][]byte{{0x10}, {0x10, 0x00, 0x01}, {0x10, 0x80}, {0x11, 0x00}, {0x31}, {0x31, 0x07, 0x07}} {
				keys = append(keys, append(append([]byte(nil), pfx...), tail...))
			}
			ks := showBytesList(keys)
			g.emit("fdb %s", ks)
			g.emit("countprefixes %s 0 %d 4", ks, len(keys))
			g.emit("countprefixes %s 1 4 2", ks)
			g.emit("countprefixes %s 2 %d 9", ks, len(keys))
		}
		// one bit position that is the first difference of 65536 adjacent pairs: all 17-bit values as keys
		if g.thorough() || true {
			var sb strings.Builder
			for i := 0; i < 1<<17; i++ {
				if i > 0 {
					sb.WriteByte(',')
				}
				v := uint32(i) << 7
				fmt.Fprintf(&sb, "x%02x%02x%02x", byte(v>>16), byte(v>>8), byte(v))
			}
			ks := sb.String()
			g.emit("countprefixes %s 0 131072 20", ks)
			g.emit("countprefixes %s 1 131071 18", ks)
			// several queries on one object: ranges whose (start, end) agree in their low 16 bits, far-apart ranges
			g.emit("cpm %s 0:65552:4;1:16:4;65537:65552:6;1:131072:3;131000:131072:9;0:2:5", ks)
			// pairs of ranges that a key built from (s, e) by shifts, xors, sums or truncation would confuse
			for rep := 0; rep < 3; rep++ {
				s0 := g.intn(300)
				e0 := s0 + 257 + g.intn(2000)
				qs := []string{}
				add := func(s, e int) {
					if s >= 0 && e <= 1<<17 && e-s >= 2 {
						qs = append(qs, fmt.Sprintf("%d:%d:%d", s, e, 3+g.intn(4)))
					}
				}
				add(s0, e0)
				for _, d := range [][2]int{{1, 65536}, {1, -65536}, {0, 65536}, {65536, 65536}, {2, 131072 - e0}, {1, -1}, {-1, 1}} {
					add(s0+d[0], e0+d[1])
					add(s0+d[0], e0^65536)
					add(s0, e0)
				}
				add(s0+1, (e0 ^ (1 << 16)))
				add(s0+1, e0+1<<16)
				add(e0, e0+(e0-s0))
				add(s0, e0)
				g.emit("cpm %s %s", ks, strings.Join(qs, ";"))
			}
			if g.thorough() {
				// more than 2^18 keys: all 19-bit values
				var sb2 strings.Builder
				for i := 0; i < 1<<18+5000; i++ {
					if i > 0 {
						sb2.WriteByte(',')
					}
					v := uint32(i) << 5
					fmt.Fprintf(&sb2, "x%02x%02x%02x", byte(v>>16), byte(v>>8), byte(v))
				}
				g.emit("cpm %s 0:40:5;262149:262164:5;4096:8200:4;266000:267143:7;5:262200:3", sb2.String())
			}
		}
		g.emit("fdb x61,x6100")
		g.emit("fdb x6162,x6163,x62")
	}

	gens["C17"] = func(g *G) {
		// exhaustive: all strictly ascending key sets of <= 4 (quick) / 5 (thorough) keys over 3 letters, length <= 2/3
		maxKeys, maxLen := g.n(4, 5), g.n(2, 2)
		allKeySets([]byte{'a', 'b', 0}, maxLen, maxKeys, func(keys [][]byte) {
			ks := showBytesList(keys)
			for ms := 1; ms <= len(keys)+1; ms++ {
				g.emit("shard %s %d", ks, ms)
			}
		})
		for rep := 0; rep < g.n(400, 5000); rep++ {
			keys := g.sortedKeys(1+g.intn(g.n(25, 40)), rep%4)
			ks := showBytesList(keys)
			for _, ms := range []int{1, 2, 3, 1 + g.intn(len(keys)+2), len(keys), len(keys) + 5} {
				if ms >= 1 {
					g.emit("shard %s %d", ks, ms)
				}
			}
		}
		// long shared prefixes of every byte length (the first-difference scan is chunked): pairs sharing L bytes,
		// sorted into one ascending key set
		for base := 0; base <= 540; base += 60 {
			if base > 300 && base < 480 {
				continue
			}
			set := map[string]bool{}
			for L := base; L < base+60; L++ {
				pfx := bytes.Repeat([]byte{byte(0x40 + L%50)}, L)
				bit := byte(0x80 >> uint(g.intn(8)))
				a := append(append([]byte(nil), pfx...), g.bytes(1, 3)[0]&^bit)
				b := append(append([]byte(nil), pfx...), a[L]|bit)
				tail := []int{0, 3, 17, 40}[g.intn(4)] // what follows the difference: nothing ... more than a 32-byte block
				set[string(append(a, g.bytes(tail+g.intn(3), 3)...))] = true
				set[string(append(b, g.bytes(tail+g.intn(3), 3)...))] = true
			}
			keys := [][]byte{}
			for k := range set {
				keys = append(keys, []byte(k))
			}
			sort.Slice(keys, func(i, j int) bool { return bytes.Compare(keys[i], keys[j]) < 0 })
			for _, ms := range []int{1, 2, 5, len(keys)} {
				g.emit("shard %s %d", showBytesList(keys), ms)
			}
		}
		// combs: many nested levels that must each be split (a leaf or two and one deeper subtree per level)
		for _, depth := range []int{10, 63, 64, 65, 66, 70, 130, 257, 255, 256, 300} {
			if depth > 70 && depth != 257 && !g.thorough() {
				continue
			}
			for variant := 0; variant < 3; variant++ {
				keys := [][]byte{}
				for d := 0; d < depth; d++ {
					pfx := bytes.Repeat([]byte{'m'}, d)
					if variant == 2 {
						// a chain of keys each a prefix of the next, with a few siblings near the top
						if d > 0 {
							keys = append(keys, pfx)
						}
						if d < 3 {
							keys = append(keys, append(append([]byte(nil), pfx...), 'z'))
						}
						continue
					}
					keys = append(keys, append(append([]byte(nil), pfx...), 'a'))
					if variant == 1 || d%3 == 0 {
						keys = append(keys, append(append([]byte(nil), pfx...), 'b', byte('0'+d%10)))
					}
					keys = append(keys, append(append([]byte(nil), pfx...), 'z'))
					if d%5 == 2 {
						keys = append(keys, append(append([]byte(nil), pfx...), 'z', 'z'))
					}
				}
				keys = append(keys, bytes.Repeat([]byte{'m'}, depth))
				sort.Slice(keys, func(i, j int) bool { return bytes.Compare(keys[i], keys[j]) < 0 })
				for _, ms := range []int{1, 2, 3} {
					g.emit("shard %s %d", showBytesList(keys), ms)
				}
			}
		}
		// neighbours sharing 2^16 bytes and more (a prefix length is a number of bytes of any size): evaluated on the
		// real code by the harness (the list-based model needs minutes for keys of this length)
		for _, pl := range []int{65535, 65536, 65537, g.n(70000, 1<<20+3)} {
			for _, ms := range []int{1, 2, 4} {
				g.emit("shardprobe %d %d %d %d", pl, 5+g.intn(20), ms, g.intn(1000))
			}
		}
		// maximal fan-out: a key equal to the common prefix followed by (nearly) every next byte
		for rep := 0; rep < g.n(3, 12); rep++ {
			pfx := g.bytes(g.intn(3), 1)
			keys := [][]byte{}
			if rep%3 != 2 {
				keys = append(keys, append([]byte(nil), pfx...))
			}
			skip := -1
			if rep%2 == 1 {
				skip = g.intn(256)
			}
			for c := 0; c < 256; c++ {
				if c == skip {
					continue
				}
				k := append(append([]byte(nil), pfx...), byte(c))
				keys = append(keys, k)
				if g.intn(40) == 0 {
					keys = append(keys, append(append([]byte(nil), k...), byte(g.intn(256))))
				}
			}
			if len(pfx) > 0 && pfx[len(pfx)-1] < 0xff {
				nxt := append([]byte(nil), pfx...)
				nxt[len(nxt)-1]++
				keys = append(keys, nxt)
			}
			sort.Slice(keys, func(i, j int) bool { return bytes.Compare(keys[i], keys[j]) < 0 })
			ks := showBytesList(keys)
			for _, ms := range []int{1, 2, 3, 16, 255, 256, 257, 300} {
				g.emit("shard %s %d", ks, ms)
			}
		}
		for rep := 0; rep < g.n(3, 20); rep++ {
			keys := g.sortedKeys(200+g.intn(400), rep%4)
			ks := showBytesList(keys)
			for _, ms := range []int{1, 7, 64, 256, 257} {
				g.emit("shard %s %d", ks, ms)
			}
		}
	}

	gens["C18"] = func(g *G) {
		for rep := 0; rep < g.n(4000, 40000); rep++ {
			off := []int64{0, 1, 5, 100, 1 << 40, 1<<62 - 50}[g.intn(6)]
			n := []int64{0, 1, 2, 7, 10, 64}[g.intn(6)]
			isAtw := g.intn(6) == 0
			ncalls := g.intn(11)
			calls := []string{}
			for c := 0; c < ncalls; c++ {
				plen := []int{0, 1, 2, 3, 5, int(n), int(n) + 1, int(n) - 1, 20}[g.intn(9)]
				if plen < 0 {
					plen = 0
				}
				acc, fail := plen+100, 0
				switch g.intn(8) {
				case 0: // short write by the underlying writer
					acc = g.intn(plen + 1)
				case 1:
					fail = 1
				case 2:
					acc, fail = g.intn(plen+1), 1
				}
				switch g.intn(10) {
				case 0, 1, 2, 3:
					calls = append(calls, fmt.Sprintf("w:%d:%d:%d", plen, acc, fail))
				case 4, 5, 6:
					o := []int64{-1, 0, 1, n - 1, n, n + 1, int64(g.intn(int(n) + 2)), -5}[g.intn(8)]
					calls = append(calls, fmt.Sprintf("a:%d:%d:%d:%d", plen, o, acc, fail))
				case 7, 8:
					wh := g.intn(5) - 1
					o := []int64{0, 1, -1, n, -n, n + 1, -n - 1, int64(g.intn(20)) - 10, 2}[g.intn(9)]
					if isAtw && wh == 2 && o > 0 {
						o = -o // the end of an AtToWriter section is the largest int64: nothing lies beyond it
					}
					calls = append(calls, fmt.Sprintf("k:%d:%d", o, wh))
				default:
					calls = append(calls, "z")
				}
			}
			// observe the cursor through a final Write
			calls = append(calls, "w:1:100:0")
			if isAtw {
				g.emit("atw %d %s", off, strings.Join(calls, ";"))
			} else {
				g.emit("sw %d %d %s", off, n, strings.Join(calls, ";"))
			}
		}
		// sections whose end lies within a few bytes of the largest int64 (limit-minus-offset sums near 2^63)
		const maxI64 = int64(1<<63 - 1)
		for rep := 0; rep < g.n(60, 600); rep++ {
			n := int64(1 + g.intn(100))
			off := maxI64 - n - int64(g.intn(3))
			calls := []string{}
			for c := 0; c < 1+g.intn(5); c++ {
				plen := []int{1, 5, 16, int(n), int(n) + 3}[g.intn(5)]
				o := []int64{0, n - 1, n - 6, n, n / 2, n - int64(plen), n - int64(plen) + 1}[g.intn(7)]
				switch g.intn(3) {
				case 0:
					calls = append(calls, fmt.Sprintf("a:%d:%d:%d:0", plen, o, plen+100))
				case 1:
					calls = append(calls, fmt.Sprintf("k:%d:0", o), fmt.Sprintf("w:%d:%d:0", plen, plen+100))
				default:
					calls = append(calls, fmt.Sprintf("k:%d:2", -int64(g.intn(int(n)+1))), fmt.Sprintf("w:%d:%d:0", plen, plen+100))
				}
			}
			g.emit("sw %d %d %s", off, n, strings.Join(calls, ";"))
			// AtToWriter: the section runs to the largest int64
			rel := maxI64 - off
			g.emit("atw %d a:16:%d:116:0;a:1:%d:101:0;a:5:%d:105:0;k:%d:0;w:9:109:0;w:1:101:0", off, rel-6, rel-1, rel, rel-4)
		}
		// WriteAt / Seek with relative offsets all over the int64 range, on sections that do not start at 0
		for rep := 0; rep < g.n(80, 800); rep++ {
			base := []int64{1, 4096, 1 << 40, 5000000000000000000, maxI64 - 1000}[g.intn(5)]
			n := int64(g.intn(200))
			if base+n < 0 || base > maxI64-n {
				n = 0
			}
			calls := []string{}
			for c := 0; c < 1+g.intn(4); c++ {
				o := []int64{maxI64, maxI64 - 100, maxI64 - base, maxI64 - base + 1, maxI64 - base - 1, 1 << 62, 1<<62 + 1<<61, 5000000000000000000, n, n - 1, -1, -maxI64, -maxI64 - 1}[g.intn(13)]
				plen := []int{0, 1, 16, 200}[g.intn(4)]
				if g.intn(3) == 0 {
					calls = append(calls, fmt.Sprintf("k:%d:%d", o, g.intn(3)))
				} else {
					calls = append(calls, fmt.Sprintf("a:%d:%d:%d:0", plen, o, plen+100))
				}
			}
			calls = append(calls, "w:1:100:0")
			g.emit("sw %d %d %s", base, n, strings.Join(calls, ";"))
		}
		// a section over a section over the scripted writer
		for rep := 0; rep < g.n(200, 2000); rep++ {
			off1, n1 := int64(g.intn(50)), int64(g.intn(40))
			off2, n2 := int64(g.intn(30)), int64(g.intn(60))
			calls := []string{}
			for c := 0; c < 1+g.intn(6); c++ {
				plen := []int{0, 1, 3, 10, 50}[g.intn(5)]
				acc, fail := plen+100, 0
				if g.intn(6) == 0 {
					acc, fail = g.intn(plen+1), g.intn(2)
				}
				switch g.intn(5) {
				case 0, 1:
					calls = append(calls, fmt.Sprintf("w:%d:%d:%d", plen, acc, fail))
				case 2, 3:
					calls = append(calls, fmt.Sprintf("a:%d:%d:%d:%d", plen, int64(g.intn(int(n2)+5))-1, acc, fail))
				default:
					calls = append(calls, fmt.Sprintf("k:%d:%d", int64(g.intn(int(n2)+5))-2, g.intn(3)))
				}
			}
			calls = append(calls, "w:2:100:0")
			g.emit("swn %d %d %d %d %s", off1, n1, off2, n2, strings.Join(calls, ";"))
		}
		g.emit("sw 0 0 w:0:0:0;w:1:1:0;a:0:0:0:0;k:0:0;k:0:2;k:1:2;w:1:1:0;z")
		g.emit("sw 5 3 w:3:3:0;w:1:1:0;k:-1:1;w:2:2:0;k:0:3;k:-1:0;a:2:2:2:0")
	}
}
