package main

import (
	"math/bits"
	"sort"
)

// mkPath builds the path word of the node with `l` branch bits `pfx` (as an l-bit number) in a tree of height h.
// Written independently of bmtree.NewPath.
func mkPath(h, l int, pfx uint64) uint64 {
	if l == 0 {
		return 0
	}
	return (pfx<<uint(h-l))<<32 | (((uint64(1) << uint(l)) - 1) << uint(h-l))
}

func heightOf(t int32) int { return 31 - bits.LeadingZeros32(uint32(t)) }

// storedPaths enumerates, ascending, the path words of all nodes on stored levels (small heights only)
func storedPathsOf(t int32) []uint64 {
	h := heightOf(t)
	r := []uint64{}
	for l := 0; l <= h; l++ {
		if t&(1<<uint(l)) == 0 {
			continue
		}
		for pfx := uint64(0); pfx < 1<<uint(l); pfx++ {
			r = append(r, mkPath(h, l, pfx))
		}
	}
	sort.Slice(r, func(i, j int) bool { return r[i] < r[j] })
	return r
}

// randMask draws a level mask of height h: full, leaf-only or partial
func (g *G) randMask(h int) int32 {
	top := int32(1) << uint(h)
	switch g.intn(5) {
	case 0:
		return top<<1 - 1
	case 1:
		return top
	case 2: // all but one level
		if h == 0 {
			return top
		}
		return (top<<1 - 1) &^ (1 << uint(g.intn(h)))
	case 3: // only a few deep levels stored (nothing shallow)
		t := top
		for k := 0; k < 1+g.intn(3) && h > 0; k++ {
			lv := h - 1 - g.intn(min(h, 6))
			t |= 1 << uint(lv)
		}
		return t
	default:
		return top | int32(g.r.Int63())&(top-1)
	}
}

func (g *G) randNode(h int) (int, uint64) {
	l := g.intn(h + 1)
	switch g.intn(5) {
	case 0:
		l = h
	case 1:
		l = 0
	}
	var pfx uint64
	switch g.intn(4) {
	case 0:
		pfx = 0
	case 1:
		pfx = 1<<uint(l) - 1
	default:
		pfx = g.r.Uint64() & (1<<uint(l) - 1)
	}
	return l, pfx
}

func init() {
	gens["C03"] = func(g *G) {
		// exhaustive: all masks of height <= 6 (quick) / 8 (thorough) x all nodes
		maxH := g.n(6, 8)
		for t := int32(1); t < 1<<uint(maxH+1); t++ {
			h := heightOf(t)
			for l := 0; l <= h; l++ {
				for pfx := uint64(0); pfx < 1<<uint(l); pfx++ {
					p := mkPath(h, l, pfx)
					g.emit("p2il %d %d", t, p)
					if t&(1<<uint(l)) != 0 {
						g.emit("p2i %d %d", t, p)
					}
				}
			}
		}
		for h := maxH + 1; h <= 30; h++ {
			for rep := 0; rep < g.n(120, 1500); rep++ {
				t := g.randMask(h)
				l, pfx := g.randNode(h)
				p := mkPath(h, l, pfx)
				g.emit("p2il %d %d", t, p)
				if t&(1<<uint(l)) != 0 {
					g.emit("p2i %d %d", t, p)
					// the shallowest stored level, with a long prefix
					for lv := 0; lv <= h; lv++ {
						if t&(1<<uint(lv)) != 0 {
							pf := g.r.Uint64() & (1<<uint(lv) - 1)
							if lv > 0 && g.intn(2) == 0 {
								pf |= 1 << uint(lv-1)
							}
							g.emit("p2i %d %d", t, mkPath(h, lv, pf))
							g.emit("p2il %d %d", t, mkPath(h, lv, pf))
							break
						}
					}
				} else {
					// move to a stored level by shortening or lengthening the prefix
					for l2 := l; l2 <= h; l2++ {
						if t&(1<<uint(l2)) != 0 {
							g.emit("p2i %d %d", t, mkPath(h, l2, pfx<<uint(l2-l)))
							break
						}
					}
				}
			}
		}
	}

	gens["C04"] = func(g *G) {
		maxH := g.n(5, 7)
		for t := int32(1); t < 1<<uint(maxH+1); t++ {
			ps := storedPathsOf(t)
			cands := []uint64{0, 1, 1 << 32, 1 << 63, ^uint64(0), 1<<63 - 1}
			for _, p := range ps {
				cands = append(cands, p, p+1, p-1, p&^0xffffffff|uint64(g.r.Uint32()))
			}
			g.emit("allpaths %d 0 %d", t, uint64(1)<<63)
			g.emit("allpaths %d 0 %d", t, ^uint64(0))
			for k := 0; k < g.n(24, 80); k++ {
				f := cands[g.intn(len(cands))]
				to := cands[g.intn(len(cands))]
				if g.intn(4) != 0 && f > to {
					f, to = to, f
				}
				g.emit("allpaths %d %d %d", t, f, to)
			}
			// Decode: bitmaps shorter, equal and longer than t bits
			nw := (int(t) + 63) / 64
			for _, l := range []int{0, nw - 1, nw, nw + 1} {
				if l < 0 {
					continue
				}
				g.emit("decode %d %s", t, showU64s(g.words(l, false)))
			}
			all := make([]uint64, nw)
			for i := range all {
				all[i] = ^uint64(0)
			}
			g.emit("decode %d %s", t, showU64s(all))
		}
		// larger heights, ranges that keep the output small
		for h := maxH + 1; h <= 30; h++ {
			for rep := 0; rep < g.n(20, 200); rep++ {
				t := g.randMask(h)
				l, pfx := g.randNode(h)
				p := mkPath(h, l, pfx)
				lo := p - uint64(g.intn(3))<<32 - uint64(g.intn(5))
				if lo > p {
					lo = 0
				}
				hi := p + uint64(g.intn(40))<<32 + uint64(g.intn(1<<20))
				g.emit("allpaths %d %d %d", t, lo, hi)
				if g.intn(4) == 0 {
					// the top of the range: `to` beyond the last path
					top := uint64(1)<<uint(h) - 1
					g.emit("allpaths %d %d %d", t, (top-uint64(g.intn(20)))<<32, []uint64{1 << 63, ^uint64(0), (top + 1) << 32}[g.intn(3)])
				}
			}
		}
		if g.thorough() {
			const h = 17
			t := int32(1)<<(h+1) - 1
			bm := make([]uint64, (int(t)+63)/64)
			// pre-order index of node n in a full tree: sum over its branch bits (see bmtree.go)
			idxOf := func(l int, pfx uint64) int {
				idx := 0
				for d := 0; d < l; d++ {
					idx++
					if pfx>>(uint(l-1-d))&1 == 1 {
						idx += int(t) >> uint(d+1)
					}
				}
				return idx
			}
			for _, n := range [][2]uint64{{1, 1}, {1, 0}, {2, 1}, {2, 2}, {2, 3}, {3, 5}, {17, 1 << 16}, {17, 1<<16 - 1}, {17, 1<<17 - 1}, {16, 1 << 15}, {0, 0}} {
				i := idxOf(int(n[0]), n[1])
				bm[i/64] |= 1 << uint(i%64)
			}
			g.emit("decode %d %s", t, showU64s(bm))
			t2 := int32(1)<<h | 1<<16 | 1<<1 | 1
			g.emit("decode %d %s", t2, showU64s(g.words((int(t2)+63)/64, true)))
		}
		for h := maxH + 1; h <= g.n(9, 12); h++ {
			for rep := 0; rep < g.n(4, 10); rep++ {
				t := g.randMask(h)
				nw := (int(t) + 63) / 64
				g.emit("decode %d %s", t, showU64s(g.words(nw+g.intn(3)-1, rep%2 == 0)))
			}
		}
	}

	gens["C05"] = func(g *G) {
		g.emit("tbl idxtopath")
		maxH := g.n(12, 16)
		for h := 0; h <= maxH; h++ {
			for idx := 0; idx < 1<<uint(h+1)-1; idx++ {
				g.emit("i2p %d %d", h, idx)
			}
		}
		for h := maxH + 1; h <= 30; h++ {
			n := int64(1)<<uint(h+1) - 1
			seen := map[int64]bool{}
			add := func(i int64) {
				if i >= 0 && i < n && !seen[i] {
					seen[i] = true
					g.emit("i2p %d %d", h, i)
				}
			}
			for i := int64(0); i <= int64(2*h+2); i++ {
				add(i)
				add(n - 1 - i)
			}
			for k := uint(1); k <= uint(h+1); k++ {
				for d := int64(-h - 2); d <= int64(h+2); d++ {
					if d < -3 && d > int64(-h+1) && g.intn(3) != 0 {
						continue
					}
					add(int64(1)<<k + d)
				}
			}
			for rep := 0; rep < g.n(150, 3000); rep++ {
				add(g.r.Int63n(n))
			}
		}
	}

	gens["C10"] = func(g *G) {
		maxH := g.n(6, 8)
		for h := 0; h <= maxH; h++ {
			type node struct {
				l   int
				pfx uint64
			}
			nodes := []node{}
			for l := 0; l <= h; l++ {
				for pfx := uint64(0); pfx < 1<<uint(l); pfx++ {
					nodes = append(nodes, node{l, pfx})
					g.emit("pathinfo %d %d %d", h, l, pfx)
				}
			}
			for _, a := range nodes {
				for _, b := range nodes {
					if h >= 6 && g.intn(g.n(8, 4)) != 0 {
						continue
					}
					g.emit("pathcmp %d %d %d %d %d", h, a.l, a.pfx, b.l, b.pfx)
				}
			}
		}
		for h := maxH + 1; h <= 32; h++ {
			for rep := 0; rep < g.n(60, 600); rep++ {
				l, pfx := g.randNode(h)
				g.emit("pathinfo %d %d %d", h, l, pfx)
				l2, pfx2 := g.randNode(h)
				switch g.intn(4) {
				case 0: // descendant of the first
					if l < h {
						l2 = l + 1 + g.intn(h-l)
						pfx2 = pfx<<uint(l2-l) | g.r.Uint64()&(1<<uint(l2-l)-1)
					}
				case 1: // sibling subtree
					if l > 0 {
						l2, pfx2 = l, pfx^1
					}
				}
				g.emit("pathcmp %d %d %d %d %d", h, l, pfx, l2, pfx2)
				g.emit("pathcmp %d %d %d %d %d", h, l2, pfx2, l, pfx)
			}
			for _, l := range []int{0, 1, h - 1, h} {
				g.emit("pathinfo %d %d %d", h, l, uint64(0))
				g.emit("pathinfo %d %d %d", h, l, uint64(1)<<uint(l)-1)
			}
			// prefixes with long runs of equal bits: 2^k, 2^k +- 1, two far-apart ones, for every k
			for _, l := range []int{h, h - 1, (h + 9) / 2} {
				if l < 1 || l > h {
					continue
				}
				for k := 0; k < l; k++ {
					for _, v := range []uint64{1 << uint(k), 1<<uint(k) + 1, 1<<uint(k) - 1, 1<<uint(l-1) | 1<<uint(k), (1<<uint(l) - 1) &^ (1 << uint(k))} {
						if v < 1<<uint(l) && (g.thorough() || k%3 == 0 || k >= 15 && k <= 17) {
							g.emit("pathinfo %d %d %d", h, l, v)
						}
					}
				}
			}
		}
	}

	gens["C11"] = func(g *G) {
		strs := [][]byte{{}, {0xff}, {0x00}, {0xa5}, {0xff, 0xff, 0xff, 0xff}, {0xff, 0xff, 0xff, 0xff, 0xff}, {0x80, 0, 0, 0, 1}}
		for l := 0; l <= 9; l++ {
			for mode := 0; mode < 4; mode += 3 {
				for rep := 0; rep < g.n(1, 3); rep++ {
					strs = append(strs, g.bytes(l, mode))
				}
			}
		}
		for _, s := range strs {
			hs := showBytes(s)
			for from := 0; from <= 8*len(s)+11; from++ {
				for w := 0; w <= 32; w++ {
					if len(s) > 5 && g.intn(g.n(6, 2)) != 0 {
						continue
					}
					g.emit("fromstr32 %s %d %d", hs, from, from+w)
					if g.intn(3) == 0 {
						g.emit("pathof %s %d %d", hs, from, w)
					}
				}
			}
		}
		// PathsOf: duplicate runs, dedup on/off, height 32 with an all-ones first key
		for rep := 0; rep < g.n(150, 1500); rep++ {
			n := g.intn(7)
			keys := make([][]byte, 0, n)
			for k := 0; k < n; k++ {
				if k > 0 && g.intn(3) == 0 {
					keys = append(keys, keys[k-1])
				} else {
					keys = append(keys, g.bytes(g.intn(6), []int{0, 2}[g.intn(2)]))
				}
			}
			sort.Slice(keys, func(i, j int) bool { return string(keys[i]) < string(keys[j]) })
			h := []int{0, 1, 3, 8, 9, 16, 30, 32}[g.intn(8)]
			from := g.intn(20)
			g.emit("pathsof %s %d %d %d", showBytesList(keys), from, h, g.intn(2))
		}
		// long key lists (the property holds for every list length): sorted keys over a small alphabet, so that many
		// neighbours truncate to the same path; lengths around powers of two and chunk-sized multiples
		for _, n := range []int{100, 1000, 4096, 16383, 16384, 16385, 20000, g.n(33000, 70001)} {
			keys := make([][]byte, 0, n)
			for k := 0; k < n; k++ {
				if k > 0 && g.intn(3) != 0 {
					keys = append(keys, keys[k-1])
				} else {
					keys = append(keys, []byte{byte(k * 250 / n), byte(g.intn(4)), byte(g.intn(256))})
				}
			}
			sort.SliceStable(keys, func(i, j int) bool { return string(keys[i]) < string(keys[j]) })
			for _, d := range []int{1, 0} {
				g.emit("pathsof %s %d %d %d", showBytesList(keys), []int{0, 3}[g.intn(2)], []int{12, 16, 24}[g.intn(3)], d)
			}
		}
		g.emit("pathsof xffffffff 0 32 1")
		g.emit("pathsof xffffffff 0 32 0")
		g.emit("pathsof xffffffff,xffffffff,xffffffff00 0 32 1")
		g.emit("pathsof x00ffffffff,x00ffffffff 8 32 1")
	}
}
