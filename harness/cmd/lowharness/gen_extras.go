package main

// case generators of the extras X01..X04: exhaustive small scopes, then seeded structured random cases (all
// randomness from g.r)

import (
	"encoding/hex"
	"fmt"
	"strconv"
	"strings"
)

var fmtTypes = []struct {
	name   string
	bits   uint
	signed bool
}{{"i8", 8, true}, {"u8", 8, false}, {"i16", 16, true}, {"u16", 16, false}, {"i32", 32, true}, {"u32", 32, false},
	{"i64", 64, true}, {"u64", 64, false}}

// fmtVal renders the value of the given type whose bit pattern is the low bits of w
func fmtVal(bits uint, signed bool, w uint64) string {
	if bits < 64 {
		w &= 1<<bits - 1
	}
	if signed {
		return strconv.FormatInt(int64(w<<(64-bits))>>(64-bits), 10)
	}
	return strconv.FormatUint(w, 10)
}

func init() {
	gens["X01"] = func(g *G) {
		// every value of the one-byte types; boundary patterns of every type
		for _, t := range fmtTypes[:2] {
			for w := uint64(0); w < 256; w++ {
				g.emit("fmt %s:%s", t.name, fmtVal(t.bits, t.signed, w))
			}
		}
		for _, t := range fmtTypes {
			pats := []uint64{0, 1, 2, 0x80, 0xff, 0x100, 0x0102, 0x8000, 0xffff, 0x10000, 0x01020304, 0x7fffffff, 0x80000000, 0xffffffff,
				0x100000000, 0x0102030405060708, 0x7fffffffffffffff, 0x8000000000000000, 0xffffffffffffffff, 0xfffffffffffffffe,
				0x00ff00ff00ff00ff, 0xaaaaaaaaaaaaaaaa, 0x5555555555555555}
			for b := uint(0); b < t.bits; b++ {
				pats = append(pats, 1<<b, ^(uint64(1) << b))
			}
			for _, w := range pats {
				g.emit("fmt %s:%s", t.name, fmtVal(t.bits, t.signed, w))
			}
			// all slices of length <= 3 over four values
			alpha := []string{fmtVal(t.bits, t.signed, 0), fmtVal(t.bits, t.signed, 1), fmtVal(t.bits, t.signed, ^uint64(0)),
				fmtVal(t.bits, t.signed, 0x8040201008040201)}
			g.emit("fmt S%s=-", t.name)
			g.emit("fmt S%s=nil", t.name)
			for n := 1; n <= 3; n++ {
				idx := make([]int, n)
				for {
					vs := make([]string, n)
					for i, k := range idx {
						vs[i] = alpha[k]
					}
					g.emit("fmt S%s=%s", t.name, strings.Join(vs, ","))
					k := 0
					for k < n {
						idx[k]++
						if idx[k] < len(alpha) {
							break
						}
						idx[k] = 0
						k++
					}
					if k == n {
						break
					}
				}
			}
		}
		// unsupported dynamic types: scalars, element types (an empty slice of them does NOT panic), nil elements
		for name := range fmtOthers {
			_ = name
		}
		others := []string{"nil", "int", "uint", "uintptr", "string", "bool", "float64", "named8", "namedu64", "array", "ptr", "struct",
			"map", "complex", "iface"}
		for _, o := range others {
			g.emit("fmt o:%s", o)
			g.emit("fmt Sany=u8:1,o:%s", o)
			g.emit("fmt Sany=o:%s,i64:-1", o)
		}
		for _, e := range []string{"int", "uint", "string", "bool", "float64", "named8", "array", "nested", "ptr", "nilany"} {
			for n := 0; n <= 2; n++ {
				g.emit("fmt So:%s=%d", e, n)
			}
		}
		g.emit("fmt Sany=-")
		g.emit("fmt Sany=nil")
		// seeded: typed slices and []interface{} of mixed supported types
		for rep := 0; rep < g.n(400, 4000); rep++ {
			t := fmtTypes[g.intn(len(fmtTypes))]
			n := 1 + g.intn(g.n(12, 120))
			vs := make([]string, n)
			for i := range vs {
				vs[i] = fmtVal(t.bits, t.signed, g.word())
			}
			g.emit("fmt S%s=%s", t.name, strings.Join(vs, ","))
		}
		for rep := 0; rep < g.n(200, 2000); rep++ {
			n := 1 + g.intn(10)
			vs := make([]string, n)
			for i := range vs {
				t := fmtTypes[g.intn(len(fmtTypes))]
				vs[i] = t.name + ":" + fmtVal(t.bits, t.signed, g.word())
			}
			if g.intn(10) == 0 {
				vs[g.intn(n)] = "o:" + others[g.intn(len(others))]
			}
			g.emit("fmt Sany=%s", strings.Join(vs, ","))
		}
	}

	gens["X02"] = func(g *G) {
		hx := func(s string) string { return hex.EncodeToString([]byte(s)) }
		// every shape of ordered tree with up to maxN nodes
		var shapes func(n int) [][]interface{} // a shape: list of child shapes
		memo := map[int][][]interface{}{}
		var forests func(n int) [][]interface{} // ordered forests with n nodes in total
		forests = func(n int) [][]interface{} {
			if n == 0 {
				return [][]interface{}{{}}
			}
			var r [][]interface{}
			for first := 1; first <= n; first++ {
				for _, s := range shapes(first) {
					for _, rest := range forests(n - first) {
						f := append([]interface{}{s}, rest...)
						r = append(r, f)
					}
				}
			}
			return r
		}
		shapes = func(n int) [][]interface{} {
			if r, ok := memo[n]; ok {
				return r
			}
			r := forests(n - 1)
			memo[n] = r
			return r
		}
		// decoration styles
		counter := 0
		var deco func(shape []interface{}, style int) string
		deco = func(shape []interface{}, style int) string {
			counter++
			id := fmt.Sprintf("%02d", counter)
			info := "(foo)"
			leaf := "-"
			switch style {
			case 1: // the package's own test: leaves carry "leaf"
				if len(shape) == 0 {
					leaf = "s" + hx("leaf")
				}
			case 2: // no ids, no infos
				id, info = "", ""
			case 3: // random
				if g.intn(3) == 0 {
					id = ""
				} else if g.intn(3) == 0 {
					id = strings.Repeat("é", g.intn(3)) + string(rune('a'+g.intn(26)))
				}
				info = []string{"", "+2", "(foo)", " ", "\n", "x\xffy", "→"}[g.intn(7)]
				switch g.intn(5) {
				case 0:
					leaf = "n"
				case 1:
					leaf = "i" + strconv.Itoa(g.intn(2000)-1000)
				case 2:
					leaf = "s" + hx([]string{"", "v", "a b", "=", "日本"}[g.intn(5)])
				}
			}
			var bs []string
			for i, c := range shape {
				lbl := strconv.Itoa(i)
				if style == 3 {
					lbl = []string{"", "0", "abc", "->", "é", "\x00", "long-label-0123456789"}[g.intn(7)]
				}
				bs = append(bs, hx(lbl)+":"+deco(c.([]interface{}), style))
			}
			return "(" + hx(id) + "|" + hx(info) + "|" + leaf + "|" + strings.Join(bs, ",") + ")"
		}
		maxN := g.n(5, 7)
		for n := 1; n <= maxN; n++ {
			for _, s := range shapes(n) {
				for style := 0; style < 4; style++ {
					reps := 1
					if style == 3 {
						reps = 3
					}
					for k := 0; k < reps; k++ {
						counter = 0
						g.emit("tree %s =", deco(s, style))
					}
				}
			}
		}
		// seeded: random trees; wide fan-out (two- and three-digit branch counts), deep chains, nil != root
		var rnd func(budget *int, depth, maxFan int) []interface{}
		rnd = func(budget *int, depth, maxFan int) []interface{} {
			var kids []interface{}
			if depth <= 0 {
				return kids
			}
			n := g.intn(maxFan + 1)
			for i := 0; i < n && *budget > 0; i++ {
				*budget--
				kids = append(kids, rnd(budget, depth-1, maxFan))
			}
			return kids
		}
		for rep := 0; rep < g.n(300, 3000); rep++ {
			budget := 1 + g.intn(g.n(40, 300))
			maxFan := []int{1, 2, 3, 5, 12, 120}[g.intn(6)]
			depth := []int{1, 2, 3, 6, 60}[g.intn(5)]
			if maxFan == 1 {
				depth = 60
			}
			s := rnd(&budget, depth, maxFan)
			counter = 0
			a := deco(s, g.intn(4))
			b := "="
			if g.intn(5) == 0 {
				budget = 1 + g.intn(10)
				counter = 50
				b = deco(rnd(&budget, 3, 3), g.intn(4))
			}
			g.emit("tree %s %s", a, b)
		}
	}

	gens["X03"] = func(g *G) {
		for _, o := range []string{"int", "nil", "string", "array", "map", "ptrslice", "struct", "func", "chan", "nilptr", "bool", "float", "emptyarray"} {
			g.emit("toslice O%s", o)
		}
		for _, k := range []string{"int", "named", "str", "any", "nest"} {
			g.emit("toslice L%s=nil", k)
			g.emit("toslice L%s=-", k)
		}
		tok := func(kind string, i int) string {
			switch kind {
			case "int", "named":
				return []string{"0", "1", "-1", "9223372036854775807", "-9223372036854775808"}[i%5]
			case "str":
				return []string{"x", "x61", "x00ff", "x616263"}[i%4]
			case "any":
				return []string{"n", "i0", "i-7", "x", "x6162", "le", "l1_2_3"}[i%7]
			}
			return []string{"e", "1", "1_2", "-3_0_3"}[i%4]
		}
		for _, k := range []string{"int", "named", "str", "any", "nest"} {
			alpha := map[string]int{"int": 5, "named": 5, "str": 4, "any": 7, "nest": 4}[k]
			for n := 1; n <= 3; n++ {
				total := 1
				for i := 0; i < n; i++ {
					total *= alpha
				}
				for c := 0; c < total; c++ {
					vs := make([]string, n)
					x := c
					for i := range vs {
						vs[i] = tok(k, x%alpha)
						x /= alpha
					}
					g.emit("toslice L%s=%s", k, strings.Join(vs, ","))
				}
			}
		}
		for rep := 0; rep < g.n(300, 3000); rep++ {
			k := []string{"int", "named", "str", "any", "nest"}[g.intn(5)]
			n := 1 + g.intn(g.n(40, 400))
			vs := make([]string, n)
			for i := range vs {
				switch k {
				case "int", "named":
					vs[i] = strconv.FormatInt(int64(g.word()), 10)
				case "str":
					vs[i] = showBytes(g.bytes(g.intn(6), g.intn(4)))
				case "any":
					vs[i] = tok(k, g.intn(7))
					if g.intn(3) == 0 {
						vs[i] = "i" + strconv.FormatInt(int64(g.word()), 10)
					}
				default:
					vs[i] = tok(k, g.intn(4))
				}
			}
			g.emit("toslice L%s=%s", k, strings.Join(vs, ","))
		}
	}

	gens["X04"] = func(g *G) {
		names := []string{"nil", "int32", "string", "slice5", "array4", "nilslice", "nilptr", "ptr", "ptrptr", "nilmap", "map1", "mapint",
			"nanmap", "nanmap2", "ifaces", "my", "nested", "structs", "embedded", "list6", "chan", "chanfield", "chanslice", "func", "bigslice"}
		for _, n := range names {
			for _, d := range []int{-3, -1, 0, 1, 2, 3, 4, 5, 10} {
				for _, m := range []int{-1, 0, 1, 2, 3, 5, 100, 1000} {
					g.emit("statnamed %s %d %d", n, d, m)
				}
			}
		}
		// a map with three entries: only where no entry is shown (the order of MapKeys is not reproducible)
		for _, dm := range [][2]int{{0, 100}, {0, 0}, {5, 0}, {-1, 0}, {3, -1}} {
			g.emit("statnamed map3 %d %d", dm[0], dm[1])
		}
		for rep := 0; rep < g.n(3000, 30000); rep++ {
			d := []int{-1, 0, 1, 2, 3, 4, 6}[g.intn(7)]
			m := []int{-1, 0, 1, 2, 3, 4, 100}[g.intn(7)]
			g.emit("statgen %d %d %d %d", g.r.Int63n(1<<40), 1+g.intn(4), d, m)
		}
	}
}
