package main

import (
	"bufio"
	"os"
	"strings"
	"testing"
)

// TestRunCases executes the case lines of $LOWHARNESS_CASES on the real code, so that
// `go test -coverpkg=github.com/openacid/low/... -coverprofile=...` measures which statements of the
// library the correspondence cases reach.
func TestRunCases(t *testing.T) {
	path := os.Getenv("LOWHARNESS_CASES")
	if path == "" {
		t.Skip("LOWHARNESS_CASES not set")
	}
	f, err := os.Open(path)
	if err != nil {
		t.Fatal(err)
	}
	defer f.Close()
	sc := bufio.NewScanner(f)
	sc.Buffer(make([]byte, 1<<20), 1<<28)
	n := 0
	for sc.Scan() {
		line := strings.TrimRight(sc.Text(), "\r\n")
		if line == "" || strings.HasPrefix(line, "#") {
			continue
		}
		runLine(line)
		n++
	}
	t.Logf("ran %d cases", n)
}
