package main

// bmprobe <kind> <shape> <nwords> <seed>: the clauses of the bitmap properties evaluated on the REAL code, against a
// naive reference written here, on bitmaps far larger than the Lean driver can evaluate (hundreds of thousands to
// millions of words).  It is part of the search for a failing input (the theorems are about the model; this widens
// what the search can reach: code paths that switch on at large sizes, index values beyond 2^16, select samples millions
// of bits apart).  Output "ok", or the first discrepancy in words; the case line is its own replay (everything is a
// function of the four arguments).

import (
	"fmt"
	"math/bits"
	"runtime/debug"
	"sort"

	"github.com/openacid/low/bitmap"
)

func mix64(x uint64) uint64 {
	x += 0x9e3779b97f4a7c15
	x = (x ^ x>>30) * 0xbf58476d1ce4e5b9
	x = (x ^ x>>27) * 0x94d049bb133111eb
	return x ^ x>>31
}

// probeBitmap: a bitmap of n words determined by (shape, seed)
func probeBitmap(shape, n int, seed uint64) []uint64 {
	ws := make([]uint64, n)
	if n == 0 {
		return ws
	}
	rnd := func(i int) uint64 { return mix64(seed*0x100000001b3 + uint64(i)) }
	cluster := func(at int, k int) {
		for j := 0; j < k && at+j < n; j++ {
			ws[at+j] = rnd(at+j) | 1<<(rnd(at+j+7)%64)
		}
	}
	switch shape {
	case 0: // dense
		for i := range ws {
			ws[i] = rnd(i)
		}
	case 1: // clusters of 1..3 random words separated by more than 4096 empty words
		gap := 4097 + int(seed%3001)
		for at := 0; at < n; at += gap + int(rnd(at)%977) {
			cluster(at, 1+int(rnd(at+1)%3))
		}
		cluster(n-1, 1)
	case 2: // runs of all-ones words and empty runs of assorted lengths
		zl := []int{1, 63, 64, 4095, 4096, 4097, 16384, 20000, 3}
		for i, k := 0, 0; i < n; k++ {
			ones := 1 + int(rnd(k)%40)
			for j := 0; j < ones && i < n; j, i = j+1, i+1 {
				ws[i] = ^uint64(0)
			}
			i += zl[int(rnd(k+99)%uint64(len(zl)))]
		}
	case 3: // single one-bits, far apart, at bit 0 / 63 / anywhere of their word
		gap := 1 + n/(40+int(seed%23))
		for at, k := 0, 0; at < n; at, k = at+gap, k+1 {
			ws[at] = 1 << []uint64{0, 63, rnd(at) % 64}[k%3]
		}
		ws[n-1] |= 1 << 63
	case 4: // dense body, empty head and tail
		h := n / 7
		for i := h; i < n-h; i++ {
			ws[i] = rnd(i) & rnd(i+n)
		}
	case 5: // very few clusters: select samples tens of millions of bits apart
		cluster(0, 2)
		cluster(n/2+int(seed%5), 2)
		cluster(n-2, 2)
	default:
		panic("harness: bad bmprobe shape")
	}
	return ws
}

type bmRef struct {
	ws   []uint64
	pre  []int32 // pre[k] = number of one-bits in words [0,k), len n+1
	pos  []int32 // positions of all one-bits (nil when there are too many)
	n    int
	ones int
}

func newBmRef(ws []uint64) *bmRef {
	r := &bmRef{ws: ws, n: len(ws), pre: make([]int32, len(ws)+1)}
	c := 0
	for i, w := range ws {
		r.pre[i] = int32(c)
		c += bits.OnesCount64(w)
	}
	r.pre[len(ws)] = int32(c)
	r.ones = c
	if c <= 40000000 {
		r.pos = make([]int32, 0, c)
		for i, w := range ws {
			for w != 0 {
				r.pos = append(r.pos, int32(i*64+bits.TrailingZeros64(w)))
				w &= w - 1
			}
		}
	}
	return r
}

func (r *bmRef) rank(i int) int32 { // one-bits in [0,i)
	if i >= 64*r.n {
		return r.pre[r.n]
	}
	return r.pre[i>>6] + int32(bits.OnesCount64(r.ws[i>>6]&(1<<uint(i&63)-1)))
}
func (r *bmRef) bit(i int) int32 { return int32(r.ws[i>>6] >> uint(i&63) & 1) }

// next: smallest one-bit position in [i,end), or -1;  prev: largest, or -1
func (r *bmRef) next(i, end int) int32 {
	k := sort.Search(len(r.pos), func(k int) bool { return int(r.pos[k]) >= i })
	if k < len(r.pos) && int(r.pos[k]) < end {
		return r.pos[k]
	}
	return -1
}
func (r *bmRef) prev(i, end int) int32 {
	k := sort.Search(len(r.pos), func(k int) bool { return int(r.pos[k]) >= end })
	if k > 0 && int(r.pos[k-1]) >= i {
		return r.pos[k-1]
	}
	return -1
}

// call runs f and reports a panic as text
func tryCall(what string, f func()) (msg string) {
	defer func() {
		if e := recover(); e != nil {
			msg = fmt.Sprintf("%s panics: %.80v", what, e)
		}
	}()
	f()
	return ""
}

func eqI32(a, b []int32) int {
	if len(a) != len(b) {
		return -2
	}
	for i := range a {
		if a[i] != b[i] {
			return i
		}
	}
	return -1
}

// positions worth asking about in a bitmap of nbits bits: around word boundaries near the ends, around 2^16, 2^20,
// 2^24, around the given events, and some pseudo-random ones
func probePositions(nbits int, events []int32, seed uint64, extra int) []int {
	set := map[int]bool{}
	add := func(p int) {
		if p >= 0 && p < nbits {
			set[p] = true
		}
	}
	for _, b := range []int{0, 64, 128, 1 << 16, 1 << 20, 1 << 24, 1 << 26, nbits - 128, nbits - 64, nbits} {
		for _, d := range []int{-65, -64, -63, -1, 0, 1, 31, 32, 63, 64} {
			add(b + d)
		}
	}
	step := 1
	if len(events) > 3000 {
		step = len(events) / 3000
	}
	for k := 0; k < len(events); k += step {
		for _, d := range []int{-64, -1, 0, 1, 63, 64} {
			add(int(events[k]) + d)
		}
	}
	for k := 0; k < extra; k++ {
		add(int(mix64(seed+uint64(k)) % uint64(nbits+1)))
	}
	r := make([]int, 0, len(set))
	for p := range set {
		r = append(r, p)
	}
	sort.Ints(r)
	return r
}

// indexes built by earlier probes stay in use: they are checked again by every later probe
type keptIdx struct {
	what string
	got  []int32
	want []int32
}

var keptIdxs []keptIdx

func keepIdx(what string, got []int32) {
	if len(got) > 1<<20 {
		return
	}
	keptIdxs = append(keptIdxs, keptIdx{what, got, append([]int32(nil), got...)})
	if len(keptIdxs) > 48 {
		keptIdxs = keptIdxs[len(keptIdxs)-48:]
	}
}
func checkKept() string {
	for _, k := range keptIdxs {
		if d := eqI32(k.got, k.want); d != -1 {
			return fmt.Sprintf("an index returned earlier (%s) changed afterwards at entry %d", k.what, d)
		}
	}
	return ""
}

func init() {
	reg("bmprobe", func(a []string) string {
		kind, shape, n, seed := a[0], int(mustI64(a[1])), int(mustI64(a[2])), mustU64(a[3])
		if n < 0 || n >= 1<<25 {
			panic("harness: bmprobe size outside the int32 domain")
		}
		if n >= 1<<20 {
			debug.FreeOSMemory() // collect what earlier cases left before allocating hundreds of megabytes
		}
		ws := probeBitmap(shape, n, seed)
		orig := append([]uint64(nil), ws...)
		ref := newBmRef(orig)
		nbits := 64 * n
		unchanged := func() string {
			for i := range ws {
				if ws[i] != orig[i] {
					return fmt.Sprintf("the argument bitmap was modified at word %d", i)
				}
			}
			return ""
		}
		fail := func(format string, v ...interface{}) string {
			return fmt.Sprintf(format, v...)
		}
		switch kind {
		case "rank":
			var i64, i64t, i128 []int32
			if m := tryCall("IndexRank64", func() { i64 = bitmap.IndexRank64(ws); i64t = bitmap.IndexRank64(ws, true) }); m != "" {
				return m
			}
			if m := tryCall("IndexRank128", func() { i128 = bitmap.IndexRank128(ws) }); m != "" {
				return m
			}
			if d := eqI32(i64, ref.pre[:n]); d != -1 {
				return fail("IndexRank64 differs at entry %d (-2: length %d, want %d)", d, len(i64), n)
			}
			if d := eqI32(i64t, ref.pre); d != -1 {
				return fail("IndexRank64(trailing) differs at entry %d (-2: length %d, want %d)", d, len(i64t), n+1)
			}
			w128 := make([]int32, 0, n/2+1)
			for k := 0; 2*k <= n; k++ {
				if 2*k == n && n%2 == 1 {
					break
				}
				w128 = append(w128, ref.pre[min(2*k, n)])
			}
			if d := eqI32(i128, w128); d != -1 {
				return fail("IndexRank128 differs at entry %d (-2: length %d, want %d)", d, len(i128), len(w128))
			}
			keepIdx(fmt.Sprintf("IndexRank64 of %d words", n), i64)
			keepIdx(fmt.Sprintf("IndexRank64 trailing of %d words", n), i64t)
			keepIdx(fmt.Sprintf("IndexRank128 of %d words", n), i128)
			// a second bitmap of the same length is indexed while the first indexes are in use
			ws2 := probeBitmap(0, n, seed+1)
			_ = bitmap.IndexRank64(ws2, true)
			_ = bitmap.IndexRank128(ws2)
			_ = bitmap.IndexRank128(ws2[:n/2])
			if m := checkKept(); m != "" {
				return m
			}
			for _, p := range probePositions(nbits, nil, seed, 3000) {
				var c, b int32
				for v, idx := range [][]int32{i64, i64t} {
					if m := tryCall("Rank64", func() { c, b = bitmap.Rank64(ws, idx, int32(p)) }); m != "" {
						return fail("%s at %d", m, p)
					}
					if c != ref.rank(p) || b != ref.bit(p) {
						return fail("Rank64(index variant %d, %d) = (%d,%d), want (%d,%d)", v, p, c, b, ref.rank(p), ref.bit(p))
					}
				}
				if m := tryCall("Rank128", func() { c, b = bitmap.Rank128(ws, i128, int32(p)) }); m != "" {
					return fail("%s at %d", m, p)
				}
				if c != ref.rank(p) || b != ref.bit(p) {
					return fail("Rank128(%d) = (%d,%d), want (%d,%d)", p, c, b, ref.rank(p), ref.bit(p))
				}
			}
		case "select":
			if ref.pos == nil {
				panic("harness: bmprobe select on too dense a bitmap")
			}
			var s1, s2, r2 []int32
			if m := tryCall("IndexSelect32", func() { s1 = bitmap.IndexSelect32(ws) }); m != "" {
				return m
			}
			if m := tryCall("IndexSelect32R64", func() { s2, r2 = bitmap.IndexSelect32R64(ws) }); m != "" {
				return m
			}
			want := make([]int32, 0, len(ref.pos)/32+1)
			for k := 0; k < len(ref.pos); k += 32 {
				want = append(want, ref.pos[k])
			}
			if d := eqI32(s1, want); d != -1 {
				return fail("IndexSelect32 differs at entry %d (-2: length %d, want %d)", d, len(s1), len(want))
			}
			if d := eqI32(s2, want); d != -1 {
				return fail("IndexSelect32R64 select index differs at entry %d (-2: length %d, want %d)", d, len(s2), len(want))
			}
			if d := eqI32(r2, ref.pre); d != -1 {
				return fail("IndexSelect32R64 rank index differs at entry %d (-2: length %d, want %d)", d, len(r2), n+1)
			}
			keepIdx(fmt.Sprintf("IndexSelect32 of %d words", n), s1)
			keepIdx(fmt.Sprintf("IndexSelect32R64 rank index of %d words", n), r2)
			if m := checkKept(); m != "" {
				return m
			}
			qs := map[int]bool{}
			tot := len(ref.pos)
			addq := func(i int) {
				if i >= 0 && i < tot {
					qs[i] = true
				}
			}
			if tot <= 30000 {
				for i := 0; i < tot; i++ {
					addq(i)
				}
			} else {
				step := 1
				if tot/32 > 6000 {
					step = tot / 32 / 6000
				}
				for k := 0; 32*k < tot; k += step {
					for _, d := range []int{-2, -1, 0, 1, 16, 31} {
						addq(32*k + d)
					}
				}
				for k := 0; k < 3000; k++ {
					addq(int(mix64(seed^uint64(k)) % uint64(tot)))
				}
				addq(tot - 1)
				addq(tot - 2)
			}
			is := make([]int, 0, len(qs))
			for i := range qs {
				is = append(is, i)
			}
			sort.Ints(is)
			for _, i := range is {
				wa := ref.pos[i]
				wb := int32(nbits)
				if i+1 < tot {
					wb = ref.pos[i+1]
				}
				var x, y int32
				if m := tryCall("Select32", func() { x, y = bitmap.Select32(ws, s1, int32(i)) }); m != "" {
					return fail("%s at i=%d", m, i)
				}
				if x != wa || y != wb {
					return fail("Select32(%d) = (%d,%d), want (%d,%d)", i, x, y, wa, wb)
				}
				if m := tryCall("Select32R64", func() { x, y = bitmap.Select32R64(ws, s2, r2, int32(i)) }); m != "" {
					return fail("%s at i=%d", m, i)
				}
				if x != wa || y != wb {
					return fail("Select32R64(%d) = (%d,%d), want (%d,%d)", i, x, y, wa, wb)
				}
			}
		case "next":
			if ref.pos == nil {
				panic("harness: bmprobe next on too dense a bitmap")
			}
			ps := probePositions(nbits+1, ref.pos, seed, 600)
			// scans over long empty stretches are costly: the total number of words scanned is bounded (deterministically)
			budget := 1500000000
			afford := func(from, to int) bool {
				c := (to-from)/64 + 1
				if c > budget {
					return false
				}
				budget -= c
				return true
			}
			// ranges: every probe position as start with a few ends, and as end with a few starts
			for k, p := range ps {
				ends := []int{p, p + 1, p + 64, nbits, ps[(k*7+3)%len(ps)], ps[(k+1)%len(ps)]}
				if nx := ref.next(p, nbits); nx >= 0 {
					ends = append(ends, int(nx), int(nx)+1, int(nx)+64, int(nx)+65)
				}
				for _, e := range ends {
					if p < nbits && e >= p && e <= nbits {
						stop := e
						if nx := ref.next(p, e); nx >= 0 {
							stop = int(nx)
						}
						if !afford(p, stop) {
							continue
						}
						var got int32
						if m := tryCall("NextOne", func() { got = bitmap.NextOne(ws, int32(p), int32(e)) }); m != "" {
							return fail("%s for [%d,%d)", m, p, e)
						}
						if want := ref.next(p, e); got != want {
							return fail("NextOne(%d,%d) = %d, want %d", p, e, got, want)
						}
					}
				}
				starts := []int{0, p - 1, p - 64, p - 65, ps[(k*5+1)%len(ps)]}
				if pv := ref.prev(0, p); pv >= 0 {
					starts = append(starts, int(pv), int(pv)+1, int(pv)-1, int(pv)-300000)
				}
				for _, s := range starts {
					if s >= 0 && s <= p && p >= 1 && s < nbits && p <= nbits {
						stop := s
						if pv := ref.prev(s, p); pv >= 0 {
							stop = int(pv)
						}
						if !afford(stop, p) {
							continue
						}
						var got int32
						if m := tryCall("PrevOne", func() { got = bitmap.PrevOne(ws, int32(s), int32(p)) }); m != "" {
							return fail("%s for [%d,%d)", m, s, p)
						}
						if want := ref.prev(s, p); got != want {
							return fail("PrevOne(%d,%d) = %d, want %d", s, p, got, want)
						}
					}
				}
			}
		case "slice":
			type ft struct{ f, t int }
			cs := []ft{{0, 0}, {nbits, nbits}}
			whole := []ft{{0, nbits}, {64, nbits - 64}, {1, nbits - 1}, {63, nbits}, {0, nbits - 63}}
			if nbits <= 1<<26 {
				cs = append(cs, whole...)
			}
			for _, lg := range []int{16, 20, 21, 22, 24} {
				if 1<<uint(lg) <= nbits {
					l := 1 << uint(lg)
					f := int(mix64(seed+uint64(lg))%uint64(nbits-l+1)) &^ 63
					cs = append(cs, ft{f, f + l}, ft{f, f + l + 64}, ft{f + 1, f + l}, ft{f, f + l - 1}, ft{0, l}, ft{nbits - l, nbits}, ft{f + 5, f + 5 + l})
				}
			}
			for k := 0; k < 12; k++ {
				f := int(mix64(seed*3+uint64(k)) % uint64(nbits+1))
				t := f + int(mix64(seed*5+uint64(k))%uint64(nbits-f+1))
				cs = append(cs, ft{f, t})
			}
			bitBudget := 1000000000 // Slice works bit by bit: bound the total (deterministically)
			if nbits > 1<<26 {
				cs = append(cs, whole...)
			}
			for _, c := range cs {
				if c.f < 0 || c.t < c.f || c.t > nbits {
					continue
				}
				if c.t-c.f > bitBudget {
					continue
				}
				bitBudget -= c.t - c.f
				var r []uint64
				if m := tryCall("Slice", func() { r = bitmap.Slice(ws, int32(c.f), int32(c.t)) }); m != "" {
					return fail("%s for [%d,%d)", m, c.f, c.t)
				}
				l := c.t - c.f
				if len(r) != (l+63)/64 {
					return fail("Slice(%d,%d) has %d words, want %d", c.f, c.t, len(r), (l+63)/64)
				}
				wantWord := func(k int) uint64 {
					lo := c.f + 64*k
					w := orig[lo>>6] >> uint(lo&63)
					if lo&63 != 0 && lo>>6+1 < n {
						w |= orig[lo>>6+1] << uint(64-lo&63)
					}
					if rem := c.t - lo; rem < 64 {
						w &= 1<<uint(rem) - 1
					}
					return w
				}
				for k := range r {
					if r[k] != wantWord(k) {
						return fail("Slice(%d,%d) word %d = %d, want %d", c.f, c.t, k, r[k], wantWord(k))
					}
				}
				// the result is a copy: writing to the argument afterwards does not change it, and vice versa
				for i := c.f >> 6; i < (c.t+63)>>6 && i < n; i++ {
					ws[i] = ^ws[i]
				}
				for k := range r {
					if r[k] != wantWord(k) {
						return fail("Slice(%d,%d) shares memory with its argument (word %d changed when the argument was written)", c.f, c.t, k)
					}
				}
				copy(ws, orig)
				for k := range r {
					r[k] = ^r[k]
				}
				if m := unchanged(); m != "" {
					return fail("Slice(%d,%d) shares memory with its argument: writing the result: %s", c.f, c.t, m)
				}
			}
		case "toarray":
			if ref.pos == nil {
				panic("harness: bmprobe toarray on too dense a bitmap")
			}
			var got []int32
			if m := tryCall("ToArray", func() { got = bitmap.ToArray(ws) }); m != "" {
				return m
			}
			if d := eqI32(got, ref.pos); d != -1 {
				return fail("ToArray differs at entry %d (-2: length %d, want %d)", d, len(got), len(ref.pos))
			}
			var back []uint64
			if m := tryCall("Of", func() { back = bitmap.Of(ref.pos) }); m != "" {
				return m
			}
			wl := 0
			if len(ref.pos) > 0 {
				wl = int(ref.pos[len(ref.pos)-1])/64 + 1
			}
			if len(back) != wl {
				return fail("Of(ToArray) has %d words, want %d", len(back), wl)
			}
			for i := range back {
				if back[i] != orig[i] {
					return fail("Of(ToArray) word %d = %d, want %d", i, back[i], orig[i])
				}
			}
			if m := tryCall("Of", func() { back = bitmap.Of(ref.pos, int32(nbits)) }); m != "" {
				return m
			}
			if len(back) != n {
				return fail("Of(ToArray, n) has %d words, want %d", len(back), n)
			}
			for i := range back {
				if back[i] != orig[i] {
					return fail("Of(ToArray, n) word %d = %d, want %d", i, back[i], orig[i])
				}
			}
		default:
			panic("harness: bad bmprobe kind")
		}
		if m := unchanged(); m != "" {
			return m
		}
		return "ok"
	})
}
