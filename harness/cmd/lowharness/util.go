package main

import (
	"bytes"
	"encoding/hex"
	"fmt"
	"math/rand"
	"strconv"
	"strings"
)

// ---- formatting (must match LowModel/Wire.lean) ----

func showU64s(l []uint64) string {
	if len(l) == 0 {
		return "-"
	}
	ss := make([]string, len(l))
	for i, v := range l {
		ss[i] = strconv.FormatUint(v, 10)
	}
	return strings.Join(ss, ",")
}

func showI32s(l []int32) string {
	if len(l) == 0 {
		return "-"
	}
	ss := make([]string, len(l))
	for i, v := range l {
		ss[i] = strconv.FormatInt(int64(v), 10)
	}
	return strings.Join(ss, ",")
}

// showBytes prints a byte string in full (case lines)
func showBytes(b []byte) string { return "x" + hex.EncodeToString(b) }

// compactBytes prints a byte string for a case line with long runs of one byte as R<n>*<hh> segments
func compactBytes(b []byte) string {
	if len(b) < 256 {
		return showBytes(b)
	}
	segs := []string{}
	lit := []byte{}
	flush := func() {
		if len(lit) > 0 {
			segs = append(segs, showBytes(lit))
			lit = nil
		}
	}
	for i := 0; i < len(b); {
		j := i
		for j < len(b) && b[j] == b[i] {
			j++
		}
		if j-i >= 64 {
			flush()
			segs = append(segs, fmt.Sprintf("R%d*%02x", j-i, b[i]))
		} else {
			lit = append(lit, b[i:j]...)
		}
		i = j
	}
	flush()
	if len(segs) == 0 {
		return "x"
	}
	return strings.Join(segs, "+")
}

// outBytes prints an OUTPUT: byte strings longer than 4096 bytes become X<len>:<fnv64> on both sides
func outBytes(b []byte) string {
	if len(b) > 4096 {
		h := uint64(14695981039346656037)
		for _, v := range b {
			h = (h ^ uint64(v)) * 1099511628211
		}
		return fmt.Sprintf("X%d:%d", len(b), h)
	}
	return "x" + hex.EncodeToString(b)
}

func showBytesList(l [][]byte) string {
	if len(l) == 0 {
		return "-"
	}
	ss := make([]string, len(l))
	for i, v := range l {
		ss[i] = showBytes(v)
	}
	return strings.Join(ss, ",")
}

func showNested(l [][]int32) string {
	if len(l) == 0 {
		return "_"
	}
	ss := make([]string, len(l))
	for i, v := range l {
		ss[i] = showI32s(v)
	}
	return strings.Join(ss, ";")
}

// ---- parsing ----

func mustU64(s string) uint64 {
	v, err := strconv.ParseUint(s, 10, 64)
	if err != nil {
		panic("harness: bad uint " + s)
	}
	return v
}

func mustI64(s string) int64 {
	v, err := strconv.ParseInt(s, 10, 64)
	if err != nil {
		panic("harness: bad int " + s)
	}
	return v
}

func mustI32(s string) int32 { return int32(mustI64(s)) }

// Arenas: argument slices of equal length are handed out from the same backing array again and again,
// so that consecutive calls see the same addresses with different contents (a cache keyed by slice
// address, or state kept from an earlier call, then meets a changed input).
var (
	arenaU64 = map[int][]uint64{}
	arenaI32 = map[int][]int32{}
	arenaStr = map[int][]string{}
)

func allocU64(n int) []uint64 {
	if b, ok := arenaU64[n]; ok && n > 0 && n <= 1<<16 {
		return b
	}
	b := make([]uint64, n)
	if n > 0 && n <= 1<<16 {
		arenaU64[n] = b
	}
	return b
}

func allocI32(n int) []int32 {
	if b, ok := arenaI32[n]; ok && n > 0 && n <= 1<<16 {
		return b
	}
	b := make([]int32, n)
	if n > 0 && n <= 1<<16 {
		arenaI32[n] = b
	}
	return b
}

func allocStr(n int) []string {
	if b, ok := arenaStr[n]; ok && n > 0 {
		return b
	}
	b := make([]string, n)
	if n > 0 {
		arenaStr[n] = b
	}
	return b
}

func parseU64s(s string) []uint64 {
	if s == "-" {
		return []uint64{}
	}
	parts := strings.Split(s, ",")
	r := allocU64(len(parts))
	for i, p := range parts {
		r[i] = mustU64(p)
	}
	return r
}

func parseI32s(s string) []int32 {
	if s == "-" {
		return []int32{}
	}
	parts := strings.Split(s, ",")
	r := make([]int32, len(parts))
	for i, p := range parts {
		r[i] = mustI32(p)
	}
	return r
}

// parseBytes: segments joined by '+', each x<hex> or R<n>*<hh> (n copies of byte hh)
func parseBytes(s string) []byte {
	out := []byte{}
	for _, seg := range strings.Split(s, "+") {
		switch {
		case strings.HasPrefix(seg, "x"):
			b, err := hex.DecodeString(seg[1:])
			if err != nil {
				panic("harness: bad hex " + seg[:min(len(seg), 40)])
			}
			out = append(out, b...)
		case strings.HasPrefix(seg, "R"):
			f := strings.Split(seg[1:], "*")
			b, err := hex.DecodeString(f[1])
			if len(f) != 2 || err != nil || len(b) != 1 {
				panic("harness: bad repeat segment " + seg)
			}
			out = append(out, bytes.Repeat(b, int(mustI64(f[0])))...)
		default:
			panic("harness: bad bytes " + seg[:min(len(seg), 40)])
		}
	}
	return out
}

func min(a, b int) int {
	if a < b {
		return a
	}
	return b
}

func parseBytesList(s string) [][]byte {
	if s == "-" {
		return [][]byte{}
	}
	parts := strings.Split(s, ",")
	r := make([][]byte, len(parts))
	for i, p := range parts {
		r[i] = parseBytes(p)
	}
	return r
}

func parseStrList(s string) []string {
	bl := parseBytesList(s)
	r := allocStr(len(bl))
	for i, b := range bl {
		r[i] = string(b)
	}
	// every other list: a key that is a prefix of its successor is handed over as a substring of the successor (the
	// way keys cut from one buffer are): same bytes, shared memory, same start address
	if len(bl)%2 == 1 {
		for i := len(r) - 2; i >= 0; i-- {
			if len(r[i]) > 0 && len(r[i]) <= len(r[i+1]) && r[i+1][:len(r[i])] == r[i] {
				r[i] = r[i+1][:len(r[i])]
			}
		}
	}
	return r
}

func parseNested(s string) [][]int32 {
	if s == "_" {
		return [][]int32{}
	}
	parts := strings.Split(s, ";")
	r := make([][]int32, len(parts))
	for i, p := range parts {
		r[i] = append([]int32(nil), parseI32s(p)...) // fresh: inner lists of equal length must not alias
	}
	return r
}

// ---- generators: shared pieces ----

type G struct {
	r    *rand.Rand
	tier string
	out  func(string)
}

func (g *G) emit(format string, a ...interface{}) { g.out(fmt.Sprintf(format, a...)) }

func (g *G) thorough() bool { return g.tier == "thorough" }

// n picks quick or thorough size
func (g *G) n(quick, thorough int) int {
	if g.thorough() {
		return thorough
	}
	return quick
}

func (g *G) intn(n int) int {
	if n <= 0 {
		return 0
	}
	return g.r.Intn(n)
}

// word draws a uint64 from an alphabet aimed at the branch structure of the bitmap code
func (g *G) word() uint64 {
	switch g.intn(10) {
	case 0:
		return 0
	case 1:
		return ^uint64(0)
	case 2:
		return 1 << uint(g.intn(64))
	case 3:
		return ^(uint64(1) << uint(g.intn(64)))
	case 4: // sparse
		return g.r.Uint64() & g.r.Uint64() & g.r.Uint64()
	case 5: // dense
		return g.r.Uint64() | g.r.Uint64() | g.r.Uint64()
	case 6: // boundary bits
		bs := []uint{0, 7, 8, 15, 16, 31, 32, 47, 48, 55, 56, 63}
		w := uint64(0)
		for k := 0; k < 1+g.intn(4); k++ {
			w |= 1 << bs[g.intn(len(bs))]
		}
		return w
	case 7: // one byte lane
		return uint64(g.intn(256)) << uint(8*g.intn(8))
	default:
		return g.r.Uint64()
	}
}

// words draws a bitmap of n words; zeroRun makes runs of empty words likely
func (g *G) words(n int, zeroRun bool) []uint64 {
	ws := make([]uint64, n)
	for i := range ws {
		if zeroRun && g.intn(3) != 0 {
			ws[i] = 0
		} else {
			ws[i] = g.word()
		}
	}
	return ws
}

var byteAlphabet = []byte{0x00, 0xff, 0x80, 0x01, 0x7f, 0x61, 0x62, 0x0f, 0xf0}

func (g *G) bytes(n int, mode int) []byte {
	b := make([]byte, n)
	for i := range b {
		switch mode {
		case 0:
			b[i] = byteAlphabet[g.intn(len(byteAlphabet))]
		case 1:
			b[i] = byte('a' + g.intn(2))
		case 2:
			b[i] = []byte{0, 1, 0xff}[g.intn(3)]
		default:
			b[i] = byte(g.intn(256))
		}
	}
	return b
}

// ---- result retention: a returned slice belongs to the caller. After every call the PREVIOUS result of the
// same operation is formatted again (it must not have changed: it would if the library kept it as scratch or
// cache) and is then overwritten with junk (a library that handed out its own internal state now holds junk).

type retainedResult struct {
	str      string
	reformat func() string
	scribble func()
}

var retained = map[string]*retainedResult{}

func retainU64s(op string, r []uint64) string {
	s := showU64s(r)
	return retain(op, s, func() string { return showU64s(r) }, func() {
		for i := range r {
			r[i] = 0xdeadbeefdeadbeef
		}
	})
}

func retainI32s(op string, r []int32) string {
	s := showI32s(r)
	return retain(op, s, func() string { return showI32s(r) }, func() {
		for i := range r {
			r[i] = -0x21524111
		}
	})
}

func retain(op, s string, reformat func() string, scribble func()) string {
	out := s
	if prev, ok := retained[op]; ok {
		if now := prev.reformat(); now != prev.str {
			out = "EARLIER-RESULT-CHANGED-BY-THIS-CALL(" + op + "):" + s
		}
		prev.scribble()
	}
	retained[op] = &retainedResult{s, reformat, scribble}
	return out
}
