package main

// large-scale probes of the bitmap properties (run_bmprobe.go): sizes the Lean driver cannot evaluate.
// quick tier: up to a few hundred thousand words (milliseconds each); thorough tier, and whenever the package's source
// changed: millions of words, select samples tens of millions of bits apart, the largest bitmap an int32 can address.

func init() {
	// word counts at which an index has exactly / about a power-of-two number of entries (capacity-shaped code paths)
	idxSizes := func(maxE int) []int {
		r := []int{}
		for e := 64; e <= maxE; e *= 2 {
			for _, n := range []int{e - 2, e - 1, e, e + 1, 2*e - 3, 2*e - 2, 2*e - 1, 2 * e} {
				r = append(r, n)
			}
		}
		return r
	}
	const maxWords = 1<<25 - 1
	genExtras["C01"] = append(genExtras["C01"], func(g *G) {
		for _, n := range idxSizes(g.n(8192, 1<<18)) {
			g.emit("bmprobe rank %d %d %d", []int{0, 2, 4}[g.intn(3)], n, g.intn(1000))
		}
		for _, n := range []int{65536, 65536 + 17, 131072 + 5, 262144 + 16383, 70001} {
			g.emit("bmprobe rank %d %d %d", g.intn(5), n, g.intn(1000))
		}
		if g.thorough() {
			for _, n := range []int{1<<20 + 3, 1<<21 + 16385, 3000001, 1 << 22} {
				g.emit("bmprobe rank %d %d %d", g.intn(5), n, g.intn(1000))
			}
			g.emit("bmprobe rank 1 %d %d", maxWords, g.intn(1000))
			g.emit("bmprobe rank 4 %d %d", maxWords-64, g.intn(1000))
		}
	})
	genExtras["C02"] = append(genExtras["C02"], func(g *G) {
		for _, n := range idxSizes(g.n(2048, 1<<15)) {
			g.emit("bmprobe select %d %d %d", []int{0, 2, 4}[g.intn(3)], n, g.intn(1000))
		}
		for _, sn := range [][2]int{{1, 300000}, {1, 70001}, {3, 262144 + 5}, {2, 131072 + 17}, {0, 65536 + 1}, {5, 200000}} {
			g.emit("bmprobe select %d %d %d", sn[0], sn[1], g.intn(1000))
		}
		if g.thorough() {
			for _, sn := range [][2]int{{5, 3000000}, {5, 4400000}, {3, 3000001}, {1, 2100000}, {2, 1<<20 + 7}, {4, 600000}, {5, maxWords}, {3, maxWords - 3}} {
				g.emit("bmprobe select %d %d %d", sn[0], sn[1], g.intn(1000))
			}
		}
	})
	genExtras["C13"] = append(genExtras["C13"], func(g *G) {
		for _, sn := range [][2]int{{1, 300000}, {1, 70001}, {3, 262144 + 5}, {2, 131072 + 17}, {5, 200000}, {4, 100000}, {3, 9000}, {1, 20000}} {
			g.emit("bmprobe next %d %d %d", sn[0], sn[1], g.intn(1000))
		}
		if g.thorough() {
			for _, sn := range [][2]int{{5, 3000000}, {3, 3000001}, {1, 2100000}, {2, 1<<20 + 7}, {5, maxWords}, {3, maxWords}, {1, maxWords - 1}, {5, maxWords - 3}} {
				g.emit("bmprobe next %d %d %d", sn[0], sn[1], g.intn(1000))
			}
		}
	})
	genExtras["C14"] = append(genExtras["C14"], func(g *G) {
		for _, sn := range [][2]int{{0, 70001}, {4, 131072 + 17}, {2, 300000}, {0, 16384 + 1}, {1, 65536}} {
			g.emit("bmprobe slice %d %d %d", sn[0], sn[1], g.intn(1000))
		}
		if g.thorough() {
			for _, sn := range [][2]int{{0, 1<<20 + 3}, {2, 3000001}, {4, 1 << 22}, {5, maxWords}, {1, maxWords - 2}} {
				g.emit("bmprobe slice %d %d %d", sn[0], sn[1], g.intn(1000))
			}
		}
	})
	genExtras["C12"] = append(genExtras["C12"], func(g *G) {
		for _, sn := range [][2]int{{0, 70001}, {1, 300000}, {2, 131072 + 17}, {3, 262144 + 5}} {
			g.emit("bmprobe toarray %d %d %d", sn[0], sn[1], g.intn(1000))
		}
		if g.thorough() {
			for _, sn := range [][2]int{{4, 1<<20 + 3}, {1, 3000001}, {5, maxWords}, {3, maxWords - 1}} {
				g.emit("bmprobe toarray %d %d %d", sn[0], sn[1], g.intn(1000))
			}
		}
	})
}

func init() {
	genExtras["C10"] = append(genExtras["C10"], func(g *G) {
		for _, h := range []int{32, 31, 8, 1} {
			g.emit("pathstrprobe %d %d %d 1", h, g.n(120000, 3000000), g.intn(1000))
		}
		g.emit("pathstrprobe 32 %d %d 8", g.n(400000, 8000000), g.intn(1000))
		g.emit("pathstrprobe 13 %d %d 16", g.n(400000, 8000000), g.intn(1000))
	})
}

func init() {
	genExtras["C08"] = append(genExtras["C08"], func(g *G) {
		for _, l := range []int{5, 16, 33} {
			g.emit("gcprobe bitword %d %d %d", g.n(150, 1500), l, g.intn(1000))
		}
	})
	genExtras["C09"] = append(genExtras["C09"], func(g *G) {
		for _, l := range []int{5, 16, 33} {
			g.emit("gcprobe bitstr %d %d %d", g.n(150, 1500), l, g.intn(1000))
		}
	})
}

func init() {
	genExtras["C09"] = append(genExtras["C09"], func(g *G) {
		for _, la := range []int{1 << 16, 1<<20 + 1, 1 << 24} {
			g.emit("cmpuptoprobe %d %d", la, g.intn(1000))
		}
		if g.thorough() {
			for _, la := range []int{1<<28 - 1, 1 << 28, 1<<28 + 9, 1<<29 + 3} {
				g.emit("cmpuptoprobe %d %d", la, g.intn(1000))
			}
		}
	})
}

func init() {
	genExtras["C18"] = append(genExtras["C18"], func(g *G) {
		for _, n := range []int{1<<20 + g.intn(100), 0x7ffff000 - 1, 0x7ffff000, 0x7ffff000 + 1, 1<<31 + 3} {
			g.emit("swbigprobe %d", n)
		}
	})
}

func init() {
	genExtras["C16"] = append(genExtras["C16"], func(g *G) {
		for _, pl := range []int{65535, 65536, 65537, g.n(70000, 1<<20+3)} {
			g.emit("shardprobe %d %d 1 %d fd", pl, 5+g.intn(20), g.intn(1000))
		}
	})
}
