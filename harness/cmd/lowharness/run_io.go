package main

import (
	"bufio"
	"bytes"
	"context"
	"errors"
	"fmt"
	"io"
	"os"
	"runtime/debug"
	"strings"
	"syscall"
	"testing/iotest"

	"github.com/golang/protobuf/proto"
	"github.com/golang/protobuf/ptypes/wrappers"
	pkgerrors "github.com/openacid/errors"
	"github.com/openacid/low/iohelper"
	"github.com/openacid/low/pbcmpl"
)

// ---------------------------------------------------------------- iohelper

var errUnderlying = errors.New("underlying writer failed")

type ucall struct {
	off int64
	p   []byte
}

type scriptW struct {
	accept  int
	fail    bool
	calls   []ucall
	lastErr error
}

// the error values a failing underlying writer / reader hands out: the harness's own and the ones real files, pipes and
// sockets return (some implement Temporary() / Timeout()); whatever it is, it is the caller's to see, unchanged
var errPool = []error{errUnderlying, syscall.EINTR, io.ErrShortWrite, syscall.EAGAIN, os.ErrDeadlineExceeded, io.ErrClosedPipe,
	io.EOF, context.DeadlineExceeded, io.ErrUnexpectedEOF, syscall.ENOSPC, io.ErrNoProgress}

func inErrPool(err error) bool {
	for _, e := range errPool {
		if err == e {
			return true
		}
	}
	return false
}

func (s *scriptW) WriteAt(p []byte, off int64) (int, error) {
	s.calls = append(s.calls, ucall{off, append([]byte(nil), p...)})
	n := s.accept
	if n > len(p) {
		n = len(p)
	}
	if s.fail || n < len(p) {
		// (io.ErrShortWrite is left out here: the SectionWriter reports it itself for a write cut at the limit)
		pool := append(append([]error{}, errPool[:2]...), errPool[3:]...)
		s.lastErr = pool[(len(p)+n+int(off&7))%len(pool)]
		return n, s.lastErr
	}
	return n, nil
}

func ioErrName(err error) string {
	switch {
	case err == nil:
		return "nil"
	case err == io.ErrShortWrite:
		return "ShortWrite"
	case err == errUnderlying:
		return "Underlying"
	case err.Error() == "Seek: invalid whence":
		return "Whence"
	case err.Error() == "Seek: invalid offset":
		return "Offset"
	}
	return "Other(" + err.Error() + ")"
}

func mkbuf(n int, salt int) []byte {
	b := make([]byte, n)
	for i := range b {
		b[i] = byte(i*7 + salt*13 + 1)
	}
	return b
}

// runCalls drives a SectionWriter (or the Writer from AtToWriter) through the scripted calls
func runCalls(w io.Writer, uw *scriptW, calls string) string {
	if calls == "-" {
		return ""
	}
	outs := []string{}
	for ci, c := range strings.Split(calls, ";") {
		f := strings.Split(c, ":")
		uw.calls = nil
		uw.lastErr = nil
		var n int64
		var err error
		var buf []byte
		switch f[0] {
		case "w":
			buf = mkbuf(int(mustI64(f[1])), ci)
			uw.accept, uw.fail = int(mustI64(f[2])), f[3] == "1"
			k, e := w.Write(buf)
			n, err = int64(k), e
		case "a":
			buf = mkbuf(int(mustI64(f[1])), ci)
			uw.accept, uw.fail = int(mustI64(f[3])), f[4] == "1"
			k, e := w.(io.WriterAt).WriteAt(buf, mustI64(f[2]))
			n, err = int64(k), e
		case "k":
			n, err = w.(io.Seeker).Seek(mustI64(f[1]), int(mustI64(f[2])))
		case "z":
			n = w.(*iohelper.SectionWriter).Size()
		default:
			panic("harness: bad sw call " + c)
		}
		name := ioErrName(err)
		if err != nil && len(uw.calls) > 0 && uw.lastErr != nil {
			// the underlying writer failed during this call: its very error value must come back
			if err == uw.lastErr {
				name = "Underlying"
			} else if name == "Underlying" {
				name = "Other(a different underlying error)"
			}
		}
		o := fmt.Sprintf("%d/%s", n, name)
		if len(uw.calls) > 1 {
			o += "/MULTIPLE-UNDERLYING-CALLS"
		} else if len(uw.calls) == 1 {
			u := uw.calls[0]
			pfx := "ok"
			if len(u.p) > len(buf) || !bytes.Equal(u.p, buf[:len(u.p)]) {
				pfx = "CONTENT-MISMATCH"
			}
			o += fmt.Sprintf("/%d/%d/%s", u.off, len(u.p), pfx)
		}
		outs = append(outs, o)
	}
	return strings.Join(outs, ";")
}

// ---------------------------------------------------------------- pbcmpl

// rawMsg is a legacy-style message (Marshal/Unmarshal methods, like pbcmpl's own header type):
// its encoding is exactly the bytes it holds.
type rawMsg struct {
	Data []byte
}

func (m *rawMsg) Marshal() ([]byte, error) { return append([]byte(nil), m.Data...), nil }
func (m *rawMsg) Unmarshal(b []byte) error { m.Data = append([]byte(nil), b...); return nil }
func (m *rawMsg) Reset()                   { m.Data = nil }
func (m *rawMsg) String() string           { return fmt.Sprintf("raw(%d)", len(m.Data)) }
func (m *rawMsg) ProtoMessage()            {}

type vRawMsg struct {
	rawMsg
	ver string
}

func (m *vRawMsg) GetVersion() string { return m.ver }

type vBytesValue struct {
	wrappers.BytesValue
	ver string
}

func (m *vBytesValue) GetVersion() string { return m.ver }

// mkMsg builds the message of a `kind` whose payload is `payload`
func mkMsg(kind string, ver *string, payload []byte) proto.Message {
	switch kind {
	case "raw":
		if ver == nil {
			return &rawMsg{Data: payload}
		}
		return &vRawMsg{rawMsg{Data: payload}, *ver}
	case "bv":
		if ver == nil {
			return &wrappers.BytesValue{Value: payload}
		}
		return &vBytesValue{wrappers.BytesValue{Value: payload}, *ver}
	case "sv":
		return &wrappers.StringValue{Value: string(payload)}
	case "iv":
		v := int64(0)
		for _, b := range payload {
			v = v<<8 | int64(b)
		}
		return &wrappers.Int64Value{Value: v}
	}
	panic("harness: bad message kind " + kind)
}

func parseVer(s string) *string {
	if s == "none" {
		return nil
	}
	v := string(parseBytes(s))
	return &v
}

var errWriter = errors.New("writer failed")

// capWriter has room for cap bytes; mode 0: partial accept then fail, mode 1: reject whole write,
// mode 2: take every write in full but report an error on the write during which the count reaches cap
// (a legal (len(p), err) answer), later writes succeed
type capWriter struct {
	cap  int
	mode int
	buf  []byte
	done bool
	err  error // the error this writer reports (chosen from errPool at construction)
}

func newCapWriter(cap, mode int) *capWriter {
	w := &capWriter{cap: cap, mode: mode, err: errWriter}
	if cap >= 0 {
		w.err = append([]error{errWriter}, errPool[1:]...)[(cap+mode)%len(errPool)]
	}
	return w
}

func (w *capWriter) Write(p []byte) (int, error) {
	if w.mode == 2 {
		w.buf = append(w.buf, p...)
		if !w.done && w.cap >= 0 && len(w.buf) >= w.cap {
			w.done = true
			return len(p), w.err
		}
		return len(p), nil
	}
	if w.cap < 0 || len(p) <= w.cap {
		w.buf = append(w.buf, p...)
		if w.cap >= 0 {
			w.cap -= len(p)
		}
		return len(p), nil
	}
	if w.mode == 1 {
		return 0, w.err
	}
	n := w.cap
	w.buf = append(w.buf, p[:n]...)
	w.cap = 0
	if w.mode == 3 {
		// fails once, part-way, then accepts everything (a writer that recovers): whoever got the error must not
		// have written on
		w.cap = -1
	}
	return n, w.err
}

var errInjected = errors.New("injected read error")

// scriptR delivers data in chunks, then EOF or an injected error
type scriptR struct {
	data  []byte
	pos   int
	chunk int // 0 whole, 1 byte-wise, 2 varying 1..5, 3 data together with the final error, 4/5/6 = 1500/4096/32768 bytes per Read
	inj   bool
	k     int
}

func (r *scriptR) Read(p []byte) (int, error) {
	end := func() error {
		if r.inj {
			return append([]error{errInjected}, errPool[1:6]...)[len(r.data)%6]
		}
		return io.EOF
	}
	if r.pos >= len(r.data) {
		return 0, end()
	}
	if len(p) == 0 {
		return 0, nil
	}
	n := len(p)
	switch r.chunk {
	case 1:
		n = 1
	case 2:
		r.k++
		n = 1 + (r.k*7+len(r.data))%5
	case 4:
		n = 1500
	case 5:
		n = 4096
	case 6:
		n = 32768
	}
	if n > len(p) {
		n = len(p)
	}
	if n > len(r.data)-r.pos {
		n = len(r.data) - r.pos
	}
	copy(p, r.data[r.pos:r.pos+n])
	r.pos += n
	if r.chunk == 3 && r.pos >= len(r.data) {
		return n, end()
	}
	return n, nil
}

// mkReader: the input stream behind the reader types callers really pass.  chunk 0..6: the scripted reader itself;
// 7..9: a bufio.Reader of 16 / 31 / 4096 bytes over it; 10..12: bytes.Reader, bytes.Buffer, strings.Reader (plain EOF
// only); 13: io.LimitReader; 14: iotest.DataErrReader; 15: io.MultiReader of two halves; 16: iotest.HalfReader
func mkReader(data []byte, chunk int, inj bool) io.Reader {
	if chunk <= 6 {
		return &scriptR{data: data, chunk: chunk, inj: inj}
	}
	under := func(c int) io.Reader { return &scriptR{data: data, chunk: c, inj: inj} }
	switch chunk {
	case 7:
		return bufio.NewReaderSize(under(0), 16)
	case 8:
		return bufio.NewReaderSize(under(2), 31)
	case 9:
		return bufio.NewReader(under(1))
	case 10, 11, 12:
		if inj {
			return under(0)
		}
		switch chunk {
		case 10:
			return bytes.NewReader(data)
		case 11:
			return bytes.NewBuffer(append([]byte(nil), data...))
		}
		return strings.NewReader(string(data))
	case 13:
		return io.LimitReader(under(2), int64(len(data))+7)
	case 14:
		return iotest.DataErrReader(under(0))
	case 15:
		h := len(data) / 2
		return io.MultiReader(bytes.NewReader(data[:h]), &scriptR{data: data[h:], chunk: 2, inj: inj})
	case 16:
		return iotest.HalfReader(under(0))
	}
	panic("harness: bad reader kind")
}

func pbErrName(err error) string {
	if err == nil {
		return "nil"
	}
	c := pkgerrors.Cause(err)
	switch {
	case c == io.EOF:
		return "EOF"
	case c == io.ErrUnexpectedEOF:
		return "UnexpectedEOF"
	case c == pbcmpl.ErrInvalidHeaderSize:
		return "InvalidHeaderSize"
	case c == errInjected:
		return "Injected"
	case c == errWriter:
		return "WErr"
	case c == io.ErrShortWrite || c == io.ErrClosedPipe || c == io.ErrNoProgress || c == os.ErrDeadlineExceeded ||
		c == syscall.EINTR || c == syscall.EAGAIN || c == syscall.ENOSPC || c == context.DeadlineExceeded:
		return "Injected" // a reader's error from the pool of real-world values
	case c.Error() == "bodysize is incorrect":
		return "InvalidBodySize"
	}
	return "Proto"
}

func unmarshalLoop(r io.Reader, maxCalls int) string {
	outs := []string{}
	// one destination reused for every frame, as a read loop would, and not empty to begin with:
	// a decoded message must not keep anything of what the destination held before
	m := &rawMsg{Data: []byte("stale-junk")}
	for i := 0; i < maxCalls; i++ {
		o, ok := "PANIC", false
		func() {
			defer func() { recover() }()
			n, ver, err := pbcmpl.Unmarshal(r, m)
			body := "-"
			if err == nil {
				body = outBytes(m.Data)
			}
			o = fmt.Sprintf("%d:%s:%s:%s", n, outBytes([]byte(ver)), pbErrName(err), body)
			ok = err == nil
		}()
		outs = append(outs, o)
		if !ok {
			break
		}
	}
	return strings.Join(outs, ";")
}

// countW records the calls it receives without looking at the data
type countW struct {
	calls [][2]int64 // (off, len)
}

func (c *countW) WriteAt(p []byte, off int64) (int, error) {
	c.calls = append(c.calls, [2]int64{off, int64(len(p))})
	return len(p), nil
}

func init() {
	// swbigprobe size: one Write and one WriteAt of `size` bytes (up to beyond 2^31; the buffer is never touched)
	// through a SectionWriter wide enough to hold them: exactly one call of the underlying writer each, with the whole
	// request at the right offset, and the full count back.  Output "ok" or the first discrepancy.
	reg("swbigprobe", func(a []string) string {
		size := int(mustI64(a[0]))
		debug.FreeOSMemory() // the address-space limit of the harness process is a few gigabytes
		buf := make([]byte, size)
		defer debug.FreeOSMemory()
		cw := &countW{}
		sw := iohelper.NewSectionWriter(cw, 10, 1<<40)
		n, err := sw.Write(buf)
		if n != size || err != nil {
			return fmt.Sprintf("Write of %d bytes returns (%d, %v)", size, n, err)
		}
		if len(cw.calls) != 1 || cw.calls[0] != [2]int64{10, int64(size)} {
			return fmt.Sprintf("Write of %d bytes reached the underlying writer as %v", size, cw.calls)
		}
		cw.calls = nil
		n, err = sw.WriteAt(buf, 77)
		if n != size || err != nil {
			return fmt.Sprintf("WriteAt of %d bytes returns (%d, %v)", size, n, err)
		}
		if len(cw.calls) != 1 || cw.calls[0] != [2]int64{87, int64(size)} {
			return fmt.Sprintf("WriteAt of %d bytes reached the underlying writer as %v", size, cw.calls)
		}
		if pos, _ := sw.Seek(0, io.SeekCurrent); pos != int64(size) {
			return fmt.Sprintf("cursor at %d after writing %d bytes", pos, size)
		}
		return "ok"
	})
	reg("sw", func(a []string) string {
		uw := &scriptW{}
		return runCalls(iohelper.NewSectionWriter(uw, mustI64(a[0]), mustI64(a[1])), uw, a[2])
	})
	// swn off1 n1 off2 n2 calls: the calls go to a section (off2, n2) of a section (off1, n1) of the scripted writer
	reg("swn", func(a []string) string {
		uw := &scriptW{}
		inner := iohelper.NewSectionWriter(uw, mustI64(a[0]), mustI64(a[1]))
		return runCalls(iohelper.NewSectionWriter(inner, mustI64(a[2]), mustI64(a[3])), uw, a[4])
	})
	reg("atw", func(a []string) string {
		uw := &scriptW{}
		return runCalls(iohelper.AtToWriter(uw, mustI64(a[0])), uw, a[1])
	})

	// pbm kind ver payload body cap mode
	reg("pbmk", func(a []string) string {
		msg := mkMsg(a[0], parseVer(a[1]), parseBytes(a[2]))
		body := parseBytes(a[3])
		enc, err := proto.Marshal(msg)
		if err != nil || !bytes.Equal(enc, body) {
			panic("harness: body mismatch for message kind " + a[0])
		}
		w := newCapWriter(int(mustI64(a[4])), int(mustI64(a[5])))
		n, err := pbcmpl.Marshal(w, msg)
		name := pbErrName(err)
		if err != nil {
			// the writer's very error value must come back
			if pkgerrors.Cause(err) == w.err {
				name = "WErr"
			} else if name == "WErr" || name == "Injected" {
				name = "OtherWErr"
			}
		}
		return fmt.Sprintf("%d,%s,%s,%d,%d", n, name, outBytes(w.buf), pbcmpl.Size(msg), pbcmpl.HeaderSize(msg))
	})
	reg("pbs", func(a []string) string {
		stream := parseBytes(a[4])
		nframes := 0
		if a[0] != "-" {
			nframes = len(strings.Split(a[0], ";"))
		}
		return unmarshalLoop(mkReader(stream, int(mustI64(a[3])), a[2] == "inj"), nframes+1)
	})
	reg("pbraw", func(a []string) string {
		return unmarshalLoop(mkReader(parseBytes(a[0]), int(mustI64(a[2])), a[1] == "inj"), int(mustI64(a[3])))
	})
	reg("pbh", func(a []string) string {
		r := &scriptR{data: parseBytes(a[0]), inj: a[1] == "inj"}
		n, h, err := pbcmpl.ReadHeader(r)
		if h == nil {
			return fmt.Sprintf("%d:x:0:0:%s", n, pbErrName(err))
		}
		return fmt.Sprintf("%d:%s:%d:%d:%s", n, outBytes([]byte(h.GetVersion())), h.GetHeaderSize(), h.GetBodySize(), pbErrName(err))
	})
	// pbrt kind ver payload: Marshal then Unmarshal of a real protobuf message; the decoded
	// message must equal the original (proto.Equal) -- output: n,ver,err,equal,n2
	reg("pbrt", func(a []string) string {
		msg := mkMsg(a[0], parseVer(a[1]), parseBytes(a[2]))
		var buf bytes.Buffer
		n, err := pbcmpl.Marshal(&buf, msg)
		if err != nil {
			return "marshal:" + pbErrName(err)
		}
		out := mkMsg(a[0], parseVer(a[1]), []byte("stale")) // a non-empty destination
		n2, ver, err := pbcmpl.Unmarshal(&scriptR{data: buf.Bytes(), chunk: 2}, out)
		eq := false
		switch x := msg.(type) {
		case *vBytesValue:
			eq = bytes.Equal(x.Value, out.(*vBytesValue).Value)
		case *vRawMsg:
			eq = bytes.Equal(x.Data, out.(*vRawMsg).Data)
		case *rawMsg:
			eq = bytes.Equal(x.Data, out.(*rawMsg).Data)
		default:
			eq = proto.Equal(msg, out)
		}
		return fmt.Sprintf("%d,%s,%s,%v,%d,%d", n, outBytes([]byte(ver)), pbErrName(err), eq, n2, buf.Len())
	})
}
