package main

import (
	"fmt"
	"math/bits"
	"runtime/debug"
	"strconv"
	"strings"

	"github.com/openacid/low/bitmap"
	"github.com/openacid/low/bmtree"
)

// every executor takes the argument tokens of one case line and returns the
// canonical output of the real code

func init() {
	reg("idxrank64", func(a []string) string {
		return retainI32s("idxrank64", bitmap.IndexRank64(parseU64s(a[0]), a[1] == "1"))
	})
	reg("idxrank128", func(a []string) string {
		return retainI32s("idxrank128", bitmap.IndexRank128(parseU64s(a[0])))
	})
	reg("rank64", func(a []string) string {
		ws := parseU64s(a[0])
		idx := bitmap.IndexRank64(ws, a[1] == "1")
		c, b := bitmap.Rank64(ws, idx, mustI32(a[2]))
		return fmt.Sprintf("%d,%d", c, b)
	})
	reg("rank128", func(a []string) string {
		ws := append([]uint64(nil), parseU64s(a[0])...)
		idx := bitmap.IndexRank128(ws)
		i := mustI32(a[1])
		c, b := bitmap.Rank128(ws, idx, i)
		out := fmt.Sprintf("%d,%d", c, b)
		// the index built for the PREVIOUS bitmap must still answer for it after this one was built
		if prevRank128 != nil {
			if c2, b2 := bitmap.Rank128(prevRank128.ws, prevRank128.idx, prevRank128.i); c2 != prevRank128.c || b2 != prevRank128.b {
				out = fmt.Sprintf("EARLIER-INDEX-CHANGED-BY-THIS-CALL(was %d,%d now %d,%d):%s", prevRank128.c, prevRank128.b, c2, b2, out)
			}
		}
		prevRank128 = &rank128Retained{ws, idx, i, c, b}
		return out
	})
	reg("idxsel32", func(a []string) string {
		return retainI32s("idxsel32", bitmap.IndexSelect32(parseU64s(a[0])))
	})
	reg("idxsel32r64", func(a []string) string {
		s, r := bitmap.IndexSelect32R64(parseU64s(a[0]))
		return showI32s(s) + ";" + showI32s(r)
	})
	reg("sel32", func(a []string) string {
		ws := parseU64s(a[0])
		x, y := bitmap.Select32(ws, bitmap.IndexSelect32(ws), mustI32(a[1]))
		return fmt.Sprintf("%d,%d", x, y)
	})
	reg("sel32r64", func(a []string) string {
		ws := parseU64s(a[0])
		s, r := bitmap.IndexSelect32R64(ws)
		x, y := bitmap.Select32R64(ws, s, r, mustI32(a[1]))
		return fmt.Sprintf("%d,%d", x, y)
	})
	selMany := func(r64 bool) func(a []string) string {
		return func(a []string) string {
			ws := append([]uint64(nil), parseU64s(a[0])...)
			is := append([]uint64(nil), parseU64s(a[1])...)
			sidx, ridx := bitmap.IndexSelect32R64(ws)
			if !r64 {
				sidx = bitmap.IndexSelect32(ws)
			}
			outs := make([]string, len(is))
			for k, i := range is {
				outs[k] = "PANIC"
				func() {
					defer func() { recover() }()
					var x, y int32
					if r64 {
						x, y = bitmap.Select32R64(ws, sidx, ridx, int32(i))
					} else {
						x, y = bitmap.Select32(ws, sidx, int32(i))
					}
					outs[k] = fmt.Sprintf("%d,%d", x, y)
				}()
			}
			return strings.Join(outs, ";")
		}
	}
	reg("sel32m", selMany(false))
	reg("sel32r64m", selMany(true))
	reg("of", func(a []string) string {
		ps := parseI32s(a[0])
		if a[1] == "none" {
			return showU64s(bitmap.Of(ps))
		}
		return showU64s(bitmap.Of(ps, mustI32(a[1])))
	})
	reg("toarray", func(a []string) string { return retainI32s("toarray", bitmap.ToArray(parseU64s(a[0]))) })
	reg("get", func(a []string) string {
		return strconv.FormatUint(bitmap.Get(parseU64s(a[0]), mustI32(a[1])), 10)
	})
	reg("get1", func(a []string) string {
		return strconv.FormatUint(bitmap.Get1(parseU64s(a[0]), mustI32(a[1])), 10)
	})
	reg("safeget", func(a []string) string {
		return strconv.FormatUint(bitmap.SafeGet(parseU64s(a[0]), mustI32(a[1])), 10)
	})
	reg("safeget1", func(a []string) string {
		return strconv.FormatUint(bitmap.SafeGet1(parseU64s(a[0]), mustI32(a[1])), 10)
	})
	reg("ofmany", func(a []string) string {
		return showU64s(bitmap.OfMany(parseNested(a[0]), parseI32s(a[1])))
	})
	reg("builder", func(a []string) string {
		b := bitmap.NewBuilder(mustI32(a[0]))
		outs := []string{}
		if a[1] == "-" {
			return ""
		}
		for _, op := range strings.Split(a[1], ";") {
			f := strings.Split(op, ":")
			ok := func() (ok bool) {
				defer func() {
					if r := recover(); r != nil {
						ok = false
					}
				}()
				switch f[0] {
				case "e":
					b.Extend(parseI32s(f[1]), mustI32(f[2]))
				case "s":
					b.Set(mustI32(f[1]), mustI32(f[2]))
				default:
					panic("harness: bad builder op")
				}
				return true
			}()
			if !ok {
				outs = append(outs, "PANIC")
				break
			}
			outs = append(outs, fmt.Sprintf("%d:%s", b.Offset, showU64s(b.Words)))
		}
		return strings.Join(outs, ";")
	})
	reg("nextone", func(a []string) string {
		return strconv.Itoa(int(bitmap.NextOne(parseU64s(a[0]), mustI32(a[1]), mustI32(a[2]))))
	})
	reg("prevone", func(a []string) string {
		return strconv.Itoa(int(bitmap.PrevOne(parseU64s(a[0]), mustI32(a[1]), mustI32(a[2]))))
	})
	reg("join", func(a []string) string {
		return retainU64s("join", bitmap.Join(parseU64s(a[0]), mustI32(a[1])))
	})
	// joinprobe n w seed: Join of n values given by a formula, at sizes the Lean driver cannot evaluate (up to the
	// int32 boundary of 2^31 bits). The property is evaluated here, on the real code: word count, sampled Getw
	// read-backs, no bit beyond n*w. Output "ok" or the first discrepancy.
	reg("joinprobe", func(a []string) string {
		n, w, seed := int(mustI64(a[0])), int32(mustI64(a[1])), mustU64(a[2])
		val := func(i int) uint64 { return (uint64(i)*0x9e3779b97f4a7c15 + seed) ^ uint64(i)>>7 }
		vs := make([]uint64, n)
		for i := range vs {
			vs[i] = val(i)
		}
		r := bitmap.Join(vs, w)
		if want := (n*int(w) + 63) / 64; len(r) != want {
			return fmt.Sprintf("len=%d want %d", len(r), want)
		}
		m := ^uint64(0)
		if w < 64 {
			m = 1<<uint(w) - 1
		}
		for k := 0; k < 4096 && n > 0; k++ {
			i := []int{k, n - 1 - k, int(val(k) % uint64(n))}[k%3]
			if i < 0 || i >= n {
				continue
			}
			if got := bitmap.Getw(r, int32(i), w); got != vs[i]&m {
				return fmt.Sprintf("Getw(%d)=%d want %d", i, got, vs[i]&m)
			}
		}
		if rem := (n * int(w)) % 64; rem != 0 && r[len(r)-1]>>uint(rem) != 0 {
			return "bits beyond n*w are set"
		}
		return "ok"
	})
	// tbl <name>: the live package-level tables (select8Lookup and idxToPath through the verif hooks)
	reg("tbl", func(a []string) string {
		switch a[0] {
		case "select8":
			t := bitmap.VerifSelect8Lookup()
			r := make([]uint64, len(t))
			for i, v := range t {
				r[i] = uint64(v)
			}
			return showU64s(r)
		case "idxtopath":
			rows := []string{}
			for _, row := range bmtree.VerifIdxToPath() {
				rows = append(rows, showU64s(row))
			}
			return strings.Join(rows, ";")
		case "masks":
			return strings.Join([]string{showU64s(bitmap.Mask[:]), showU64s(bitmap.RMask[:]), showU64s(bitmap.MaskUpto[:]),
				showU64s(bitmap.RMaskUpto[:]), showU64s(bitmap.Bit[:]), showU64s(bitmap.RBit[:])}, ";")
		}
		panic("harness: no such table " + a[0])
	})
	// builderprobe: Extend with segment sizes of hundreds of millions of bits (running end around 2^31/3 and
	// beyond); the C12 builder clauses are evaluated here on the real code. Output "ok" or the first discrepancy.
	reg("builderprobe", func(a []string) string {
		b := bitmap.NewBuilder(0)
		want := map[int32]bool{}
		off := int32(0)
		for _, tok := range strings.Split(a[0], ";") {
			f := strings.Split(tok, ":")
			ps, size := parseI32s(f[0]), mustI32(f[1])
			for _, p := range ps {
				want[off+p] = true
			}
			b.Extend(ps, size)
			off += size
			if b.Offset != off {
				return fmt.Sprintf("Offset=%d want %d", b.Offset, off)
			}
			if int64(len(b.Words))*64 < int64(off) {
				return fmt.Sprintf("%d words do not cover Offset %d", len(b.Words), off)
			}
		}
		n := 0
		for i, w := range b.Words {
			for w != 0 {
				p := int32(i*64 + bits.TrailingZeros64(w))
				if !want[p] {
					return fmt.Sprintf("bit %d is set but was never added", p)
				}
				n++
				w &= w - 1
			}
		}
		if n != len(want) {
			return fmt.Sprintf("%d bits set, want %d", n, len(want))
		}
		return "ok"
	})
	// buildersetprobe p1,p2,...: Builder.Set(p, 1) for positions up to the largest an int32 holds (the top word of a
	// 2^25-word bitmap included); after every Set the bit reads 1, the words cover it, and exactly the positions set so
	// far are 1.  Output "ok" or the first discrepancy.
	reg("buildersetprobe", func(a []string) string {
		debug.FreeOSMemory()
		b := bitmap.NewBuilder(0)
		set := map[int32]bool{}
		for _, p := range parseI32s(a[0]) {
			msg := ""
			func() {
				defer func() {
					if e := recover(); e != nil {
						msg = fmt.Sprintf("Set(%d, 1) panics: %.60v", p, e)
					}
				}()
				b.Set(p, 1)
			}()
			if msg != "" {
				return msg
			}
			set[p] = true
			if int64(len(b.Words))*64 <= int64(p) {
				return fmt.Sprintf("after Set(%d, 1): %d words do not reach the bit", p, len(b.Words))
			}
			if b.Words[p>>6]>>uint(p&63)&1 != 1 {
				return fmt.Sprintf("after Set(%d, 1) the bit reads 0", p)
			}
		}
		n := 0
		for i, w := range b.Words {
			for w != 0 {
				q := int32(i*64 + bits.TrailingZeros64(w))
				if !set[q] {
					return fmt.Sprintf("bit %d is set but was never set by the caller", q)
				}
				n++
				w &= w - 1
			}
		}
		if n != len(set) {
			return fmt.Sprintf("%d bits set, want %d", n, len(set))
		}
		return "ok"
	})
	// ofmanyprobe n k seed: OfMany on n segments with k positions each (given by a formula; the last segment may
	// reach beyond its size) must equal Of of the shifted concatenation -- the property's own wording.
	reg("ofmanyprobe", func(a []string) string {
		n, k, seed := int(mustI64(a[0])), int(mustI64(a[1])), mustU64(a[2])
		subs := make([][]int32, n)
		sizes := make([]int32, n)
		flat := make([]int32, 0, n*k)
		base := int32(0)
		for i := range subs {
			size := int32(k*3 + int((seed+uint64(i))%7))
			sizes[i] = size
			p := int32((seed + uint64(i)*13) % 3)
			for j := 0; j < k; j++ {
				subs[i] = append(subs[i], p)
				flat = append(flat, base+p)
				p += 1 + int32((seed+uint64(i*k+j))%3)
			}
			if i == n-1 {
				far := size + 700 + int32(seed%500) // beyond the last segment's size, several words further
				subs[i] = append(subs[i], far)
				flat = append(flat, base+far)
			}
			base += size
		}
		got := bitmap.OfMany(subs, sizes)
		want := bitmap.Of(flat, base)
		if len(got) != len(want) {
			return fmt.Sprintf("OfMany gives %d words, Of(shifted positions, total) gives %d", len(got), len(want))
		}
		for i := range got {
			if got[i] != want[i] {
				return fmt.Sprintf("word %d differs", i)
			}
		}
		return "ok"
	})
	// tbprobe shape n: TailBitmap histories of millions of Sets; the C15 clauses are evaluated here on the real code
	reg("tbprobe", func(a []string) string {
		n := mustI64(a[1]) // words
		if n >= 1<<20 {
			debug.FreeOSMemory()
		}
		tb := bitmap.NewTailBitmap(0)
		var everSet []int64 // indices that were set and must stay answerable (C15: "for every j up to the highest index ever set")
		check := func(when string, isSet func(int64) bool) string {
			for _, j := range everSet {
				got := uint64(99)
				func() {
					defer func() { recover() }()
					got = tb.Get1(j)
				}()
				if got != 1 {
					return fmt.Sprintf("%s: Get1(%d)=%d for an index that was set (99 = panic)", when, j, got)
				}
			}
			if tb.Offset%64 != 0 {
				return when + ": Offset not a multiple of 64"
			}
			if len(tb.Words) > 0 && tb.Words[0] == ^uint64(0) {
				return when + ": first stored word is all-ones"
			}
			end := tb.Offset + int64(len(tb.Words))*64
			for k := int64(0); k < 5000; k++ {
				j := (k*2654435761 + 12345) % (end + 1)
				if j >= end {
					continue
				}
				want := uint64(0)
				if isSet(j) {
					want = 1
				}
				if got := tb.Get1(j); got != want {
					return fmt.Sprintf("%s: Get1(%d)=%d want %d", when, j, got, want)
				}
				if got := tb.Get(j); (got != 0) != (want == 1) || (got != 0 && got != 1<<uint(j&63)) {
					return fmt.Sprintf("%s: Get(%d)=%d", when, j, got)
				}
			}
			for j := tb.Offset - 1; j >= 0 && j > tb.Offset-200; j-- {
				if !isSet(j) {
					return fmt.Sprintf("%s: Offset %d moved past position %d which is still 0", when, tb.Offset, j)
				}
			}
			return ""
		}
		switch a[0] {
		case "backfill": // words 1..n filled back to front, then word 0 completed
			for j := (n+1)*64 - 1; j >= 64; j-- {
				tb.Set(j)
			}
			set1 := func(j int64) bool { return j >= 64 && j < (n+1)*64 }
			if r := check("after the back-to-front fill", set1); r != "" {
				return r
			}
			for j := int64(0); j < 64; j++ {
				tb.Set(j)
			}
			if r := check("after completing word 0", func(j int64) bool { return j < (n+1)*64 }); r != "" {
				return r
			}
			if tb.Offset != (n+1)*64 {
				return fmt.Sprintf("Offset=%d after everything below %d was set", tb.Offset, (n+1)*64)
			}
			tb.Compact()
			if tb.Offset != (n+1)*64 {
				return "Compact moved Offset although nothing was set"
			}
		case "farbit": // a bit n words ahead, then enough front words to cross the reclaim threshold
			far := n*64 + 17
			tb.Set(far)
			everSet = append(everSet, far)
			for j := int64(0); j < 70000; j++ {
				tb.Set(j)
			}
			if r := check("after crossing the reclaim threshold", func(j int64) bool { return j < 70000 || j == far }); r != "" {
				return r
			}
			tb.Set(far + 640)
			everSet = append(everSet, far+640)
			if r := check("after a later far Set", func(j int64) bool { return j < 70000 || j == far || j == far+640 }); r != "" {
				return r
			}
		default:
			panic("harness: bad tbprobe shape")
		}
		return "ok"
	})
	reg("getw", func(a []string) string {
		return strconv.FormatUint(bitmap.Getw(parseU64s(a[0]), mustI32(a[1]), mustI32(a[2])), 10)
	})
	reg("slice", func(a []string) string {
		ws := parseU64s(a[0])
		cp := append([]uint64(nil), ws...)
		r := bitmap.Slice(ws, mustI32(a[1]), mustI32(a[2]))
		for i := range ws {
			if ws[i] != cp[i] {
				return "INPUT-MODIFIED"
			}
		}
		return showU64s(r)
	})
	reg("fromstr32", func(a []string) string {
		n, v := bitmap.FromStr32(string(parseBytes(a[0])), mustI32(a[1]), mustI32(a[2]))
		return fmt.Sprintf("%d,%d", n, v)
	})
	reg("tb", runTb)

	// ---- bmtree path words ----
	reg("pathinfo", func(a []string) string {
		h, l, pfx := mustI32(a[0]), mustI32(a[1]), mustU64(a[2])
		p := bmtree.NewPath(pfx<<uint(h-l), l, h)
		return fmt.Sprintf("%d,%d,%d,%d,%d,%s", p, bmtree.PathLen(p), bmtree.PathHeight(p),
			bmtree.PathBits(p), bmtree.PathMask(p), bmtree.PathStr(p))
	})
	reg("pathcmp", func(a []string) string {
		h, la, pa, lb, pb := mustI32(a[0]), mustI32(a[1]), mustU64(a[2]), mustI32(a[3]), mustU64(a[4])
		x := bmtree.NewPath(pa<<uint(h-la), la, h)
		y := bmtree.NewPath(pb<<uint(h-lb), lb, h)
		switch {
		case x < y:
			return "-1"
		case x > y:
			return "1"
		}
		return "0"
	})
	reg("pathof", func(a []string) string {
		p := bmtree.PathOf(string(parseBytes(a[0])), mustI32(a[1]), mustI32(a[2]))
		return fmt.Sprintf("%d,%s", p, bmtree.PathStr(p))
	})
	reg("pathsof", func(a []string) string {
		return retainU64s("pathsof", bmtree.PathsOf(parseStrList(a[0]), mustI32(a[1]), mustI32(a[2]), a[3] == "1"))
	})
	reg("p2i", func(a []string) string {
		return strconv.Itoa(int(bmtree.PathToIndex(mustI32(a[0]), mustU64(a[1]))))
	})
	reg("p2il", func(a []string) string {
		i, has := bmtree.PathToIndexLoose(mustI32(a[0]), mustU64(a[1]))
		return fmt.Sprintf("%d,%d", i, has)
	})
	reg("allpaths", func(a []string) string {
		return retainU64s("allpaths", bmtree.AllPaths(mustI32(a[0]), mustU64(a[1]), mustU64(a[2])))
	})
	reg("decode", func(a []string) string {
		return retainU64s("decode", bmtree.Decode(mustI32(a[0]), parseU64s(a[1])))
	})
	reg("i2p", func(a []string) string {
		return strconv.FormatUint(bmtree.IndexToPath(mustI32(a[0]), mustI32(a[1])), 10)
	})
	// <op>seq <fixed> <x1,x2,...>: the same function called on x1, x2, ... in this order; a pure function's answer
	// cannot depend on the calls made before it.  One answer per call, separated by ';' (a panic is that call's answer).
	seq := func(list string, one func(x string) string) string {
		outs := []string{}
		for _, x := range strings.Split(list, ",") {
			o := "PANIC"
			func() {
				defer func() { recover() }()
				o = one(x)
			}()
			outs = append(outs, o)
		}
		return strings.Join(outs, ";")
	}
	reg("i2pseq", func(a []string) string {
		return seq(a[1], func(x string) string {
			return strconv.FormatUint(bmtree.IndexToPath(mustI32(a[0]), mustI32(x)), 10)
		})
	})
	reg("p2iseq", func(a []string) string {
		return seq(a[1], func(x string) string {
			return strconv.Itoa(int(bmtree.PathToIndex(mustI32(a[0]), mustU64(x))))
		})
	})
	reg("p2ilseq", func(a []string) string {
		return seq(a[1], func(x string) string {
			i, has := bmtree.PathToIndexLoose(mustI32(a[0]), mustU64(x))
			return fmt.Sprintf("%d,%d", i, has)
		})
	})
}

type rank128Retained struct {
	ws   []uint64
	idx  []int32
	i    int32
	c, b int32
}

var prevRank128 *rank128Retained

func runTb(a []string) string {
	o, thr := mustI64(a[0]), mustI64(a[1])
	old := bitmap.VerifSetReclaimThreshold(thr)
	defer bitmap.VerifSetReclaimThreshold(old)
	tb := bitmap.NewTailBitmap(o)
	outs := []string{}
	if a[2] == "-" {
		return ""
	}
	safe := func(f func() uint64) string {
		s := "PANIC"
		func() {
			defer func() { recover() }()
			s = strconv.FormatUint(f(), 10)
		}()
		return s
	}
	for _, op := range strings.Split(a[2], ",") {
		switch op[0] {
		case 'c':
			tb.Compact()
		case 'o':
			ws := "-"
			if len(tb.Words) > 0 {
				ss := make([]string, len(tb.Words))
				for i, w := range tb.Words {
					ss[i] = strconv.FormatUint(w, 10)
				}
				ws = strings.Join(ss, ".")
			}
			outs = append(outs, fmt.Sprintf("%d/%s", tb.Offset, ws))
		case 's':
			tb.Set(mustI64(op[1:]))
		case 'g':
			i := mustI64(op[1:])
			outs = append(outs, safe(func() uint64 { return tb.Get(i) }))
		case 'h':
			i := mustI64(op[1:])
			outs = append(outs, safe(func() uint64 { return tb.Get1(i) }))
		case 'f':
			ab := strings.Split(op[1:], ":")
			for i, b := mustI64(ab[0]), mustI64(ab[1]); i < b; i++ {
				tb.Set(i)
			}
		case 'F':
			ab := strings.Split(op[1:], ":")
			for a, i := mustI64(ab[0]), mustI64(ab[1])-1; i >= a; i-- {
				tb.Set(i)
			}
		default:
			panic("harness: bad tb op " + op)
		}
	}
	return strings.Join(outs, ",")
}
