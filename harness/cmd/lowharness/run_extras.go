package main

// Extras X01..X04: the code of openacid/low that no listed property covers, run on the real functions.
//   X01 fmt <arg>                          bitmap.Fmt
//   X02 tree <nilT> <root|=>               tree.String and tree.DepthFirst over a finite implementation of tree.Tree
//   X03 toslice <arg>                      typehelper.ToSlice
//   X04 statgen <seed> <typedepth> <depth> <maxItem> / statnamed <name> <depth> <maxItem>     size.Stat (all lines)
// The line formats are documented with the handlers in /verif/lean/LowModel/Driver/Extras.lean.

import (
	"encoding/hex"
	"fmt"
	"math"
	"math/rand"
	"reflect"
	"strconv"
	"strings"

	"github.com/openacid/low/bitmap"
	"github.com/openacid/low/size"
	"github.com/openacid/low/tree"
	"github.com/openacid/low/typehelper"
)

// ---------------------------------------------------------------- X01

type named8 int8
type namedU64 uint64

var fmtOthers = map[string]interface{}{
	"nil": nil, "int": int(5), "uint": uint(5), "uintptr": uintptr(5), "string": "01010101", "bool": true,
	"float64": float64(1), "named8": named8(3), "namedu64": namedU64(3), "array": [2]uint8{1, 2},
	"ptr": new(uint8), "struct": struct{ A uint8 }{1}, "map": map[uint8]uint8{1: 1},
	"complex": complex64(1), "iface": (*interface{})(nil),
}

// slices whose ELEMENT type is unsupported
func fmtOtherSlice(name string, n int) interface{} {
	switch name {
	case "int":
		return make([]int, n)
	case "uint":
		return make([]uint, n)
	case "string":
		return make([]string, n)
	case "bool":
		return make([]bool, n)
	case "float64":
		return make([]float64, n)
	case "named8":
		return make([]named8, n)
	case "array":
		return make([][2]uint8, n)
	case "nested":
		r := make([][]uint8, n)
		for i := range r {
			r[i] = []uint8{1}
		}
		return r
	case "ptr":
		r := make([]*uint8, n)
		for i := range r {
			r[i] = new(uint8)
		}
		return r
	case "nilany": // []interface{} holding nil interfaces
		return make([]interface{}, n)
	}
	panic("harness: no such unsupported element type " + name)
}

func fmtScalar(tok string) interface{} {
	f := strings.SplitN(tok, ":", 2)
	if len(f) != 2 {
		panic("harness: bad fmt scalar " + tok)
	}
	if f[0] == "o" {
		v, ok := fmtOthers[f[1]]
		if !ok {
			panic("harness: no such unsupported value " + f[1])
		}
		return v
	}
	switch f[0] {
	case "i8":
		return int8(mustI64(f[1]))
	case "u8":
		return uint8(mustU64(f[1]))
	case "i16":
		return int16(mustI64(f[1]))
	case "u16":
		return uint16(mustU64(f[1]))
	case "i32":
		return int32(mustI64(f[1]))
	case "u32":
		return uint32(mustU64(f[1]))
	case "i64":
		return int64(mustI64(f[1]))
	case "u64":
		return uint64(mustU64(f[1]))
	}
	panic("harness: bad fmt type " + f[0])
}

func items(s string) []string {
	if s == "-" || s == "nil" {
		return nil
	}
	return strings.Split(s, ",")
}

func fmtArg(arg string) interface{} {
	if !strings.HasPrefix(arg, "S") {
		return fmtScalar(arg)
	}
	f := strings.SplitN(arg[1:], "=", 2)
	if len(f) != 2 {
		panic("harness: bad fmt slice " + arg)
	}
	ety, vals := f[0], f[1]
	if strings.HasPrefix(ety, "o:") {
		return fmtOtherSlice(ety[2:], int(mustI64(vals)))
	}
	its := items(vals)
	if ety == "any" {
		if vals == "nil" {
			return []interface{}(nil)
		}
		r := make([]interface{}, len(its))
		for i, t := range its {
			r[i] = fmtScalar(t)
		}
		return r
	}
	// a typed slice built through reflect: []int8 … []uint64
	et := reflect.TypeOf(fmtScalar(ety + ":0"))
	st := reflect.SliceOf(et)
	if vals == "nil" {
		return reflect.Zero(st).Interface()
	}
	s := reflect.MakeSlice(st, len(its), len(its)+len(its)%3)
	for i, t := range its {
		s.Index(i).Set(reflect.ValueOf(fmtScalar(ety + ":" + t)))
	}
	return s.Interface()
}

// ---------------------------------------------------------------- X02

type fnode struct {
	id, info string
	isLeaf   bool
	leaf     interface{}
	labels   []string
	kids     []*fnode
}

type flabel struct {
	k    int
	info string
}

// ftree implements tree.Tree the way the package's own test does: a node is a pointer, nil is "the root" (nilT),
// Child(nil, nil) is root.
type ftree struct{ nilT, root *fnode }

func (t *ftree) node(n interface{}) *fnode {
	if n == nil {
		return t.nilT
	}
	return n.(*fnode)
}
func (t *ftree) Child(node, label interface{}) interface{} {
	if node == nil && label == nil {
		return t.root
	}
	return t.node(node).kids[label.(flabel).k]
}
func (t *ftree) Labels(node interface{}) []interface{} {
	n := t.node(node)
	r := make([]interface{}, len(n.kids))
	for i := range n.kids {
		r[i] = flabel{i, n.labels[i]}
	}
	return r
}
func (t *ftree) NodeID(node interface{}) string      { return t.node(node).id }
func (t *ftree) LabelInfo(label interface{}) string  { return label.(flabel).info }
func (t *ftree) NodeInfo(node interface{}) string    { return t.node(node).info }
func (t *ftree) LeafVal(node interface{}) (interface{}, bool) {
	n := t.node(node)
	return n.leaf, n.isLeaf
}

func unhex(s string) string {
	b, err := hex.DecodeString(s)
	if err != nil {
		panic("harness: bad hex " + s)
	}
	return string(b)
}

// parseTree parses `(<idhex>|<infohex>|<leaf>|<lblhex>:<tree>,…)` at s[*pos]
func parseTree(s string, pos *int) *fnode {
	if *pos >= len(s) || s[*pos] != '(' {
		panic("harness: bad tree at " + strconv.Itoa(*pos))
	}
	*pos++
	field := func() string {
		i := strings.IndexByte(s[*pos:], '|')
		if i < 0 {
			panic("harness: bad tree field")
		}
		f := s[*pos : *pos+i]
		*pos += i + 1
		return f
	}
	n := &fnode{}
	n.id = unhex(field())
	n.info = unhex(field())
	leaf := field()
	switch {
	case leaf == "-":
	case leaf == "n":
		n.isLeaf = true
	case leaf[0] == 's':
		n.isLeaf, n.leaf = true, unhex(leaf[1:])
	case leaf[0] == 'i':
		n.isLeaf, n.leaf = true, int(mustI64(leaf[1:]))
	default:
		panic("harness: bad leaf " + leaf)
	}
	for {
		if *pos >= len(s) {
			panic("harness: unterminated tree")
		}
		if s[*pos] == ')' {
			*pos++
			return n
		}
		if s[*pos] == ',' {
			*pos++
			continue
		}
		i := strings.IndexByte(s[*pos:], ':')
		if i < 0 {
			panic("harness: bad branch")
		}
		n.labels = append(n.labels, unhex(s[*pos:*pos+i]))
		*pos += i + 1
		n.kids = append(n.kids, parseTree(s, pos))
	}
}

func showFNode(n *fnode) string { return hex.EncodeToString([]byte(n.id)) + "." + hex.EncodeToString([]byte(n.info)) }

// ---------------------------------------------------------------- X03

type namedInts []int

func tsUnder(s string) []int {
	if s == "e" {
		return []int{}
	}
	p := strings.Split(s, "_")
	r := make([]int, len(p))
	for i, x := range p {
		r[i] = int(mustI64(x))
	}
	return r
}

func showUnder(l []int) string {
	if len(l) == 0 {
		return "e"
	}
	ss := make([]string, len(l))
	for i, v := range l {
		ss[i] = strconv.Itoa(v)
	}
	return strings.Join(ss, "_")
}

var tsOthers = map[string]interface{}{
	"int": 1, "nil": nil, "string": "abc", "array": [3]int{1, 2, 3}, "map": map[int]int{1: 2}, "ptrslice": &[]int{1, 2},
	"struct": struct{ S []int }{[]int{1}}, "func": func() {}, "chan": make(chan int), "nilptr": (*[]int)(nil),
	"bool": false, "float": 1.5, "emptyarray": [0]int{},
}

func tsArg(arg string) interface{} {
	if strings.HasPrefix(arg, "O") {
		v, ok := tsOthers[arg[1:]]
		if !ok {
			panic("harness: no such non-slice " + arg)
		}
		return v
	}
	f := strings.SplitN(arg[1:], "=", 2)
	if !strings.HasPrefix(arg, "L") || len(f) != 2 {
		panic("harness: bad toslice argument " + arg)
	}
	its := items(f[1])
	isNil := f[1] == "nil"
	switch f[0] {
	case "int", "named":
		r := make([]int, len(its), len(its)+len(its)%2)
		for i, x := range its {
			r[i] = int(mustI64(x))
		}
		if f[0] == "named" {
			if isNil {
				return namedInts(nil)
			}
			return namedInts(r)
		}
		if isNil {
			return []int(nil)
		}
		return r
	case "str":
		if isNil {
			return []string(nil)
		}
		r := make([]string, len(its))
		for i, x := range its {
			r[i] = string(parseBytes(x))
		}
		return r
	case "any":
		if isNil {
			return []interface{}(nil)
		}
		r := make([]interface{}, len(its))
		for i, x := range its {
			switch x[0] {
			case 'n':
				r[i] = nil
			case 'i':
				r[i] = int(mustI64(x[1:]))
			case 'x':
				r[i] = string(parseBytes(x))
			case 'l':
				r[i] = tsUnder(x[1:])
			default:
				panic("harness: bad toslice token " + x)
			}
		}
		return r
	case "nest":
		if isNil {
			return [][]int(nil)
		}
		r := make([][]int, len(its))
		for i, x := range its {
			r[i] = tsUnder(x)
		}
		return r
	}
	panic("harness: bad toslice kind " + f[0])
}

func showBoxed(x interface{}) string {
	switch v := x.(type) {
	case nil:
		return "nil"
	case int:
		return "int:" + strconv.Itoa(v)
	case string:
		return "string:x" + hex.EncodeToString([]byte(v))
	case []int:
		return "[]int:" + showUnder(v)
	}
	return fmt.Sprintf("?%T", x)
}

// ---------------------------------------------------------------- X04

// describeX: like describe (run_size.go) plus field names, map-key labels and whether MapIndex finds the entry
func describeX(v reflect.Value) string {
	if w, ok := scalarWidth[v.Kind()]; ok {
		return fmt.Sprintf("S%d%s", w, kindLetter[v.Kind()])
	}
	list := func(tag string, n int, at func(int) reflect.Value) string {
		ss := make([]string, n)
		for i := 0; i < n; i++ {
			ss[i] = describeX(at(i))
		}
		return tag + "[" + strings.Join(ss, ",") + "]"
	}
	switch v.Kind() {
	case reflect.String:
		return fmt.Sprintf("T%d", v.Len())
	case reflect.Array:
		return list("A", v.Len(), v.Index)
	case reflect.Slice:
		return list("L", v.Len(), v.Index)
	case reflect.Struct:
		ss := make([]string, v.NumField())
		for i := range ss {
			ss[i] = hex.EncodeToString([]byte(v.Type().Field(i).Name)) + "=" + describeX(v.Field(i))
		}
		return "R[" + strings.Join(ss, ",") + "]"
	case reflect.Map:
		var ss []string
		for _, k := range v.MapKeys() {
			e := v.MapIndex(k)
			found := "1"
			val := "S0z" // never looked at by the model when the entry is not found … but sizeof counts the real value:
			if e.IsValid() {
				val = describeX(e)
			} else {
				found = "0"
				// the real value, through the iterator (needed for the header numbers)
				for it := v.MapRange(); it.Next(); {
					kk := it.Key()
					if fmt.Sprintf("%#v", kk) == fmt.Sprintf("%#v", k) {
						val = describeX(it.Value())
					}
				}
			}
			ss = append(ss, hex.EncodeToString([]byte(fmt.Sprintf("%s", k)))+"!"+found+"="+describeX(k)+":"+val)
		}
		return "M[" + strings.Join(ss, ",") + "]"
	case reflect.Ptr:
		if v.IsNil() {
			return "P0"
		}
		return "P[" + describeX(v.Elem()) + "]"
	case reflect.Interface:
		if v.IsNil() {
			return "I0"
		}
		return "I[" + describeX(v.Elem()) + "]"
	}
	return "U"
}

// fillX: like fill (run_size.go), but a map gets at most one entry (MapKeys returns the keys of a bigger map in a
// different order on every call, so the lines of Stat would not be reproducible) and nothing is aliased
func fillX(r *rand.Rand, v reflect.Value, depth int) {
	switch v.Kind() {
	case reflect.Array:
		for i := 0; i < v.Len(); i++ {
			fillX(r, v.Index(i), depth-1)
		}
	case reflect.Slice:
		if r.Intn(5) == 0 {
			return
		}
		n := r.Intn(5)
		s := reflect.MakeSlice(v.Type(), n, n+r.Intn(3))
		for i := 0; i < n; i++ {
			fillX(r, s.Index(i), depth-1)
		}
		v.Set(s)
	case reflect.Map:
		if r.Intn(5) == 0 {
			return
		}
		m := reflect.MakeMap(v.Type())
		if r.Intn(4) != 0 {
			k := reflect.New(v.Type().Key()).Elem()
			fill(r, k, 0)
			fl := 0.5
			if r.Intn(3) == 0 {
				fl = math.NaN()
			}
			switch {
			case k.Kind() == reflect.String:
				k.SetString(strings.Repeat("k", r.Intn(4)))
			case k.Kind() == reflect.Float32 || k.Kind() == reflect.Float64:
				k.SetFloat(fl)
			case k.Kind() == reflect.Complex128:
				k.SetComplex(complex(1, fl))
			case k.Kind() == reflect.Array:
				k.Index(1).SetFloat(fl)
			case k.Kind() == reflect.Struct:
				k.Field(1).SetFloat(fl)
				k.Field(2).SetString("q")
			case k.Kind() == reflect.Interface:
				dyn := []interface{}{int8(1), "key", fl, [2]float64{1, fl}, keyRec{1, fl, "s"}, uint16(2)}
				k.Set(reflect.ValueOf(dyn[r.Intn(len(dyn))]))
			}
			e := reflect.New(v.Type().Elem()).Elem()
			fillX(r, e, depth-1)
			m.SetMapIndex(k, e)
		}
		v.Set(m)
	case reflect.Ptr:
		if r.Intn(4) == 0 {
			return
		}
		p := reflect.New(v.Type().Elem())
		fillX(r, p.Elem(), depth-1)
		v.Set(p)
	case reflect.Interface:
		if r.Intn(4) == 0 {
			return
		}
		t := randType(r, depth-1)
		for t.Kind() == reflect.Interface {
			t = randType(r, depth-1)
		}
		e := reflect.New(t).Elem()
		fillX(r, e, depth-1)
		v.Set(e)
	case reflect.Struct:
		for i := 0; i < v.NumField(); i++ {
			fillX(r, v.Field(i), depth-1)
		}
	default:
		fill(r, v, depth) // scalars and strings
	}
}

// canonLines: the lines of Stat's output as <indent>/<label>/<number>
func canonLines(out string) string {
	var rs []string
	for _, ln := range strings.Split(out, "\n") {
		rest := strings.TrimLeft(ln, " ")
		ind := len(ln) - len(rest)
		if ind%4 != 0 {
			return "UNPARSED-INDENT:" + hex.EncodeToString([]byte(ln))
		}
		label, num := "-", ""
		switch {
		case rest == "<nil>":
			num = "nil"
		case strings.HasSuffix(rest, ": <nil>"):
			label, num = "x"+hex.EncodeToString([]byte(rest[:len(rest)-7])), "nil"
		default:
			i := strings.LastIndex(rest, ": ")
			if i < 0 {
				return "UNPARSED:" + hex.EncodeToString([]byte(ln))
			}
			num = rest[i+2:]
			if _, err := strconv.ParseUint(num, 10, 64); err != nil {
				return "UNPARSED-NUMBER:" + hex.EncodeToString([]byte(ln))
			}
			before := rest[:i]
			if j := strings.Index(before, ": "); j >= 0 {
				label = "x" + hex.EncodeToString([]byte(before[:j]))
			}
		}
		rs = append(rs, fmt.Sprintf("%d/%s/%s", ind/4, label, num))
	}
	return strings.Join(rs, ";")
}

type intReaderX interface{ Read() int }
type intReadX int32

func (m *intReadX) Read() int { return 1 }

var myReadX intReadX

type myX struct {
	a []int32
	b [3]int32
	c map[string]int8
	d *myX
	e []*myX
	f []string
	g intReaderX
	h intReaderX
}

var statNamed = map[string]interface{}{
	"nil":      nil,
	"int32":    int32(1),
	"string":   "hello",
	"slice5":   []int32{1, 2, 3, 4, 5},
	"array4":   [4]int16{1, 2, 3, 4},
	"nilslice": []int32(nil),
	"nilptr":   (*int64)(nil),
	"ptr":      new(int64),
	"ptrptr":   func() interface{} { p := new(int64); return &p }(),
	"nilmap":   map[string]int(nil),
	"map1":     map[string]int8{"abc": 3},
	"map3":     map[string]int8{"a": 1, "b": 2, "c": 3}, // shown only under depth 0 or maxItem <= 0
	"mapint":   map[int32]string{7: "seven"},
	"nanmap":   map[float64]int64{math.NaN(): 7},
	"nanmap2":  map[float64][]int32{math.NaN(): {1, 2, 3}},
	"ifaces":   struct{ X, Y interface{} }{nil, int8(3)},
	"my": myX{a: []int32{1, 2, 3}, b: [3]int32{4, 5, 6}, c: map[string]int8{"abc": 3}, d: &myX{a: []int32{1, 2}},
		e: []*myX{{a: []int32{1, 2, 3}}, {a: []int32{2, 3, 4}}}, f: []string{"abc", "def"}, g: nil, h: &myReadX},
	"nested": [][]string{{"a", "bc"}, nil, {}, {"def", "", "g", "h"}},
	"structs": []struct {
		P *int32
		S string
	}{{nil, "ab"}, {new(int32), ""}},
	"embedded":  embRecord{embHeader{7, "abc"}, []int32{1, 2}},
	"list6":     linkedList(6),
	"chan":      make(chan int),
	"chanfield": struct {
		A int8
		C chan int
	}{},
	"chanslice": []interface{}{int8(1), make(chan int)},
	"func":      func() {},
	"bigslice":  make([]uint8, 300),
}

func statOut(v interface{}, depth, maxItem int) string {
	tree := "N"
	if v != nil {
		tree = describeX(reflect.ValueOf(v))
	}
	res := "PANIC"
	func() {
		defer func() { recover() }()
		res = canonLines(size.Stat(v, depth, maxItem))
	}()
	return tree + "|" + res
}

func init() {
	reg("fmt", func(a []string) string {
		x := fmtArg(a[0])
		return "'" + strings.ReplaceAll(bitmap.Fmt(x), " ", "_") + "'"
	})

	reg("tree", func(a []string) string {
		pos := 0
		nilT := parseTree(a[0], &pos)
		if pos != len(a[0]) {
			panic("harness: trailing characters after tree")
		}
		root := nilT
		if a[1] != "=" {
			pos = 0
			root = parseTree(a[1], &pos)
		}
		t := &ftree{nilT, root}
		s := tree.String(t)
		var calls []string
		tree.DepthFirst(t, func(tr tree.Tree, parent, label, node interface{}) {
			p, l := "~", "~"
			if parent != nil {
				p = showFNode(parent.(*fnode))
			}
			if label != nil {
				lb := label.(flabel)
				l = strconv.Itoa(lb.k) + "." + hex.EncodeToString([]byte(lb.info))
			}
			n := "~"
			if node != nil {
				n = showFNode(node.(*fnode))
			}
			if tr != tree.Tree(t) {
				n = "OTHER-TREE"
			}
			calls = append(calls, p+"/"+l+"/"+n)
		})
		tr := "-"
		if len(calls) > 0 {
			tr = strings.Join(calls, ";")
		}
		return outBytes([]byte(s)) + "|" + tr
	})

	reg("toslice", func(a []string) string {
		arg := tsArg(a[0])
		r := typehelper.ToSlice(arg)
		if r == nil {
			return "NIL-RESULT"
		}
		if len(r) == 0 {
			return "0|-"
		}
		ss := make([]string, len(r))
		for i, x := range r {
			ss[i] = showBoxed(x)
		}
		// the result is a fresh slice: writing to it must not change the argument
		before := fmt.Sprintf("%#v", arg)
		for i := range r {
			r[i] = "scribble"
		}
		if fmt.Sprintf("%#v", arg) != before {
			return "ARGUMENT-CHANGED"
		}
		return strconv.Itoa(len(r)) + "|" + strings.Join(ss, ",")
	})

	reg("statgen", func(a []string) string {
		r := rand.New(rand.NewSource(mustI64(a[0])))
		tdepth := int(mustI64(a[1]))
		t := randType(r, tdepth)
		for t.Kind() == reflect.Interface {
			t = randType(r, tdepth)
		}
		v := reflect.New(t).Elem()
		fillX(r, v, tdepth)
		return statOut(v.Interface(), int(mustI64(a[2])), int(mustI64(a[3])))
	})
	reg("statnamed", func(a []string) string {
		v, ok := statNamed[a[0]]
		if !ok {
			panic("harness: no such named value " + a[0])
		}
		return statOut(v, int(mustI64(a[1])), int(mustI64(a[2])))
	})
}
